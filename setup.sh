#!/bin/bash
# Builds the framework offline from files on disk only.
set -e
cd /verif
export CARGO_NET_OFFLINE=true
mkdir -p /verif/target /verif/evidence /verif/replays
(cd /verif/sim && cargo build --release --offline)
if [ -d /verif/sim/faultshim ] && [ -f /verif/sim/faultshim/Makefile ]; then
  make -s -C /verif/sim/faultshim
  (cd /repo && RUSTFLAGS="--cfg ripgrep_verif" cargo build --release --offline --bin rg --target-dir /verif/target/rg)
fi
echo setup ok
