# Executed by tools_manifest.py. One check(...) call per claimed property;
# PENDING lists properties whose check is not built yet in this revision.

PENDING.update({
 "C02": "check not built yet in this revision (planned: engine iosim, see DESIGN.md section 5)",
 "C03": "check not built yet in this revision (planned: engine iosim)",
 "C08": "check not built yet in this revision (planned: engine procsim)",
 "C14": "check not built yet in this revision (planned: engines iosim + procsim)",
 "C15": "check not built yet in this revision (planned: engine procsim)",
 "C16": "check not built yet in this revision (planned: engine iosim)",
 "C17": "check not built yet in this revision (planned: engine iosim)",
 "C18": "check not built yet in this revision (planned: engine procsim)",
})

check("C07", "walksim", "exploration",
  "Seeded search over thread schedules of the real parallel walker: every run executes the real WalkParallel/Worker/Stack code on a tmpfs tree with a baton scheduler deciding which worker proceeds at each hooked synchronisation point (push, pop, each steal attempt, counter decrement/increment, quit flag read/write, idle sleep, worker exit, each visitor call). Strategies: uniform random, PCT (d<=4), sticky, round-robin; visitor quit injected at sampled visit indices (incl. first/last), skip sets, injected readdir-entry errors. Oracles: exact hang detector (all live workers in idle sleep and stale), step bound, no entry visited twice (checked under the baton), visited set == tree when nobody quits, nothing beneath a skipped directory, bounded number of steps after the last visit. Exploration (sampling), not exhaustive enumeration: a clean batch is evidence, not proof.",
  "Assumes sequential consistency (workers serialised; Acquire/Release reorderings of the two atomics not explored); crossbeam-deque executed but trusted; the idle sleep is modelled as blocking until another worker performs a state-changing step. Exhaustive enumeration up to a preemption bound (mentioned in the property's quantifier) is model checking and is outside this technique family; the thorough tier spends its budget on more seeds and PCT depths.",
  "deterministic simulation: seeded baton scheduler (random/PCT) over real threads + fault injection",
  "DESIGN.md section 5/C07, section 2/E2")

check("C06", "walksim", "exploration",
  "Seeded sampling of (tree, builder configuration, schedule): the real parallel walker runs under the baton scheduler of C07 (so the comparison is made under adversarial interleavings, threads 1..16), the real serial walker runs on the same tmpfs tree, and when no ignore/hidden rules are active an independent std::fs listing with the same depth/size/link/device/filter semantics is the third party. Trees: empty dirs, chains, fan-out, file and directory symlinks, cycles, dangling links, several/overlapping roots, file roots, symlink roots, a link to a directory on another device (disk vs tmpfs) for same_file_system. Oracles: multiset(parallel) == multiset(serial) including reported errors (loop, io); no path more often than the roots allow; both == independent listing; walk terminates (hang detector, step bound).",
  "Same scheduler assumptions as C07. The second device is reached through a symlink (the sandbox cannot mount), so same_file_system is exercised together with follow_links only. Ignore-rule semantics themselves (C04/C05) are not judged here: with rules active only serial==parallel is demanded.",
  "deterministic simulation: seeded schedules + seeded tree/config swarm, differential oracle (parallel vs serial vs independent listing)",
  "DESIGN.md section 5/C06")
