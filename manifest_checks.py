# Executed by tools_manifest.py. One check(...) call per claimed property;
# PENDING lists properties whose check is not built yet in this revision.

PENDING.update({
 "C08": "check not built yet in this revision (planned: engine procsim)",
 "C14": "check not built yet in this revision (planned: engines iosim + procsim)",
 "C15": "check not built yet in this revision (planned: engine procsim)",
 "C17": "check not built yet in this revision (planned: engine iosim)",
 "C18": "check not built yet in this revision (planned: engine procsim)",
})

check("C07", "walksim", "exploration",
  "Seeded search over thread schedules of the real parallel walker: every run executes the real WalkParallel/Worker/Stack code on a tmpfs tree with a baton scheduler deciding which worker proceeds at each hooked synchronisation point (push, pop, each steal attempt, counter decrement/increment, quit flag read/write, idle sleep, worker exit, each visitor call). Strategies: uniform random, PCT (d<=4), sticky, round-robin; visitor quit injected at sampled visit indices (incl. first/last), skip sets, injected readdir-entry errors. Oracles: exact hang detector (all live workers in idle sleep and stale), step bound, no entry visited twice (checked under the baton), visited set == tree when nobody quits, nothing beneath a skipped directory, bounded number of steps after the last visit. Exploration (sampling), not exhaustive enumeration: a clean batch is evidence, not proof.",
  "Assumes sequential consistency (workers serialised; Acquire/Release reorderings of the two atomics not explored); crossbeam-deque executed but trusted; the idle sleep is modelled as blocking until another worker performs a state-changing step. Exhaustive enumeration up to a preemption bound (mentioned in the property's quantifier) is model checking and is outside this technique family; the thorough tier spends its budget on more seeds and PCT depths.",
  "deterministic simulation: seeded baton scheduler (random/PCT) over real threads + fault injection",
  "DESIGN.md section 5/C07, section 2/E2")

check("C06", "walksim", "exploration",
  "Seeded sampling of (tree, builder configuration, schedule): the real parallel walker runs under the baton scheduler of C07 (so the comparison is made under adversarial interleavings, threads 1..16), the real serial walker runs on the same tmpfs tree, and when no ignore/hidden rules are active an independent std::fs listing with the same depth/size/link/device/filter semantics is the third party. Trees: empty dirs, chains, fan-out, file and directory symlinks, cycles, dangling links, several/overlapping roots, file roots, symlink roots, a link to a directory on another device (disk vs tmpfs) for same_file_system. Oracles: multiset(parallel) == multiset(serial) including reported errors (loop, io); no path more often than the roots allow; both == independent listing; walk terminates (hang detector, step bound).",
  "Same scheduler assumptions as C07. The second device is reached through a symlink (the sandbox cannot mount), so same_file_system is exercised together with follow_links only. Ignore-rule semantics themselves (C04/C05) are not judged here: with rules active only serial==parallel is demanded.",
  "deterministic simulation: seeded schedules + seeded tree/config swarm, differential oracle (parallel vs serial vs independent listing)",
  "DESIGN.md section 5/C06")

check("C02", "iosim", "exploration",
  "Seeded search over read histories and buffer configurations of the real Searcher: each generated input/configuration is searched as an in-memory slice (reference) and then through SimReader under 10 (quick) / 20 (thorough) seeded histories (1-byte, small, geometric, terminator-aligned, anti-aligned incl. CR|LF splits, bursts, fixed odd sizes, full reads, EINTR injected at random reads) with a randomised roll-buffer capacity from 1 byte to 64 KiB (hook H2, eager growth), through a tmpfs file with and without memory maps, with the multi-line request toggled, and with the heap limit bisected to the just-sufficient value and one below. Oracle: the complete recorded event stream (kinds, bytes, line numbers, absolute offsets, separators, final byte count, Ok result) is identical to the slice run; heap limit one below sufficient fails with the allocation error after delivering a prefix.",
  "Pattern pool restricted to patterns that cannot match a line terminator; binary detection off (C14). Sampling, not enumeration. The CLI leg (rg under syscall-level read fragmentation/EINTR) is part of the C15/C14 process-level checks' fault kinds, not repeated here.",
  "deterministic simulation: seeded read-history / buffer-capacity / EINTR injection, differential oracle against the slice search",
  "DESIGN.md section 5/C02, section 2/E1")
check("C03", "iosim", "exploration",
  "The same simulated runs as C02 (slice, readers under seeded histories and capacities, file/mmap, multi-line toggled) judged by an independent oracle: an executable grep reference model (split at the terminator, regex crate per line, textbook before/after windows, separators between non-adjacent groups, passthru, stop-on-nonmatch, 1-based numbering, offsets, byte count for completed searches) that shares no code with the searcher, plus in-run sink invariants (offsets strictly increasing, hence order and uniqueness). The state carried across buffer rolls (after_context_left, last_line_visited, last_line_counted, line_number, has_sunk) is what the history dimension attacks; the fault-free slice run is the baseline configuration.",
  "The model decides 'does this line match' with the regex crate on the line content; the pattern pool is kept to patterns whose per-line meaning is uncontroversial (C01's territory is not judged). The history-independent part of C03 is covered only as strongly as random generation covers it.",
  "deterministic simulation: seeded read histories + executable reference model as oracle",
  "DESIGN.md section 5/C03")

check("C16", "iosim", "fault_enumeration",
  "Crash-point enumeration inside seeded cases: for each generated (input, pattern, configuration) and for the slice strategy and a reader under a seeded history/capacity (line and multi-line search loops, binary detection off/quit/convert with planted NULs so binary notices exist), the uninterrupted event stream E is recorded and then every crash point is executed: SimSink answers stop and, separately, error at every event index (begin, match, context, separator, binary notice); SimReader returns an error and, separately, Interrupted at every read index of the fault-free read log (all indices up to 160, else first/last 40 plus 80 seeded). Oracles: stop at k => delivered == E[0..=k], exactly one finish, Ok; sink error at k => delivered == E[0..=k], no finish, the injected error returned; read error at j => delivered is a prefix of E, no finish, the reader's error returned; Interrupted => retried with identical results (or a clean prefix). Plus Standard/JSON/Summary printers with max_matches = N for every N in 0..#matches+1 on slice and reader against the model's stream cut after the N-th selected line's trailing context, and a SimWriter failing after k bytes (error returned, exactly k bytes written, no write attempted afterwards).",
  "Exhaustive over crash points within a case (read indices sampled beyond 160 reads); cases are sampled from the seed. The byte count passed to finish after a stop is not constrained here.",
  "deterministic simulation: exhaustive fault/crash-point injection at every sink event and read index per seeded case",
  "DESIGN.md section 5/C16")
