//! C14, CLI leg — the real rg binary on trees with NUL-bearing files:
//! implicit (directory) vs explicit (named) paths, default / --binary /
//! --text, memory maps vs reads (with syscall-level read fragmentation).

use crate::common::*;
use serde_json::{json, Value};
use simcore::*;

#[derive(Clone, Debug)]
pub struct Workload {
    pub corpus: Corpus,
    pub explicit: bool,
    pub binary_flag: &'static str, // "" | "--binary" | "--text"
    pub mmap: &'static str,        // "--mmap" | "--no-mmap"
    pub frag: bool,
    pub mode: &'static str, // "lines" | "count" | "list" | "context" | "multiline"
    pub placements: Vec<String>,
    /// Feed the (single) file on standard input instead of naming a path.
    pub via_stdin: bool,
    /// Traversal only: an explicitly named file outside the tree is searched first and its
    /// search fails ("open" or "read"); the traversed files that follow on the same worker
    /// must still be treated as traversed files.
    pub failing_explicit: Option<&'static str>,
    /// -m N -A k, with the first NUL beyond 64 KiB inside the k lines after the N-th match.
    pub limit: Option<(usize, usize)>,
    /// Files written as UTF-16LE with a byte-order mark: path -> the text they decode to (a NUL
    /// byte of that text is U+0000 in the file). What is searched, and judged, is the decoded text.
    pub utf16: std::collections::BTreeMap<String, Vec<u8>>,
}

pub fn gen_workload(sub: u64) -> Workload {
    let mut rng = Rng::new(sub);
    if rng.chance(1, 12) {
        // a match limit whose trailing context reaches into binary data that lies beyond the
        // part of the file examined up front
        let mut c: Vec<u8> = vec![];
        let mut n = 0;
        while c.len() < 66_000 + rng.below(20_000) {
            if rng.chance(1, 60) {
                c.extend_from_slice(b"a foo line in the text part\n");
                n += 1;
            } else {
                c.extend_from_slice(b"filler filler filler filler filler filler filler filler\n");
            }
        }
        c.extend_from_slice(b"the foo line whose context is binary\n");
        n += 1;
        let k = 1 + rng.below(3);
        let at = c.len() + 9;
        c.extend_from_slice(b"trailing \0 bytes\nfoo again \0 here\nmore\nfoo later\n");
        let corpus = Corpus { files: vec![("big.txt".into(), c)], links: vec![] };
        return Workload {
            corpus,
            explicit: rng.chance(3, 4),
            binary_flag: ["", "", "--binary"][rng.below(3)],
            mmap: if rng.chance(2, 3) { "--mmap" } else { "--no-mmap" },
            frag: false,
            mode: "limit-context",
            placements: vec![format!("big.txt:in-the-context-after-the-limit@{at}")],
            via_stdin: false,
            failing_explicit: None,
            limit: Some((n, k)),
            utf16: Default::default(),
        };
    }
    let big = rng.chance(1, 6);
    let mut corpus = gen_corpus(&mut rng, 5, big);
    let mut placements = vec![];
    for (p, c) in corpus.files.iter_mut() {
        if c.is_empty() || rng.chance(1, 4) {
            continue; // stays a text file
        }
        let n = 1 + rng.below(2);
        for _ in 0..n {
            let lines: Vec<(usize, usize)> = {
                let mut v = vec![];
                let mut s = 0;
                for (i, &b) in c.iter().enumerate() {
                    if b == b'\n' {
                        v.push((s, i + 1));
                        s = i + 1;
                    }
                }
                v
            };
            let hits: Vec<&(usize, usize)> = lines.iter().filter(|(s, e)| c[*s..*e].windows(3).any(|w| w == b"foo")).collect();
            let (pos, how) = match rng.below(8) {
                0 => (0, "first-byte"),
                1 => (c.len() - 1, "last-byte"),
                2 | 3 if !hits.is_empty() => {
                    let (s, e) = *hits[rng.below(hits.len())];
                    (s + rng.below(e - s), "inside-matching-line")
                }
                4 if !hits.is_empty() => {
                    let (_, e) = *hits[rng.below(hits.len())];
                    (e.min(c.len() - 1), "just-after-matching-line")
                }
                5 if c.len() > 66_100 => ([65_535usize, 65_536, 66_000][rng.below(3)], "around-64KiB"),
                6 => (c.len() * 3 / 4, "late"),
                _ => (rng.below(c.len()), "anywhere"),
            };
            c[pos] = 0;
            placements.push(format!("{p}:{how}@{pos}"));
        }
    }
    let binary_flag = ["", "", "--binary", "--text"][rng.below(4)];
    let mode = ["lines", "lines", "lines", "count", "list", "context", "multiline", "swarm", "swarm", "without-match"][rng.below(10)];
    let via_stdin = rng.chance(1, 7);
    if via_stdin {
        corpus.files.truncate(1);
        placements.retain(|p| p.starts_with(&format!("{}:", corpus.files[0].0)));
    }
    let mut utf16 = std::collections::BTreeMap::new();
    if !via_stdin && rng.chance(1, 5) {
        let i = rng.below(corpus.files.len());
        let (p, c) = &mut corpus.files[i];
        if c.len() < 20_000 && c.is_ascii() {
            let mut enc = vec![0xFFu8, 0xFE];
            for &b in c.iter() {
                enc.extend_from_slice(&(b as u16).to_le_bytes());
            }
            utf16.insert(p.clone(), std::mem::replace(c, enc));
        }
    }
    let explicit = via_stdin || rng.chance(1, 2);
    let mmap = if rng.chance(1, 2) { "--mmap" } else { "--no-mmap" };
    let failing_explicit = if !explicit && rng.chance(1, 4) { Some(if mmap == "--no-mmap" && rng.chance(1, 2) { "read" } else { "open" }) } else { None };
    Workload { corpus, explicit, binary_flag, mmap, frag: rng.chance(1, 2) && !via_stdin, mode, placements, via_stdin, failing_explicit, limit: None, utf16 }
}

fn args_have(args: &[String], any: &[&str]) -> bool {
    args.iter().any(|a| any.contains(&a.as_str()))
}

/// Model lines "w/path:N:text" for the literal pattern foo, detection disabled.
fn model_lines(label: &str, c: &[u8]) -> Vec<Vec<u8>> {
    let mut out = vec![];
    let mut n = 0;
    for l in c.split_inclusive(|&b| b == b'\n') {
        n += 1;
        let content = if l.ends_with(b"\n") { &l[..l.len() - 1] } else { l };
        if content.windows(3).any(|w| w == b"foo") {
            let mut v = format!("{label}:{n}:").into_bytes();
            v.extend_from_slice(content);
            out.push(v);
        }
    }
    out
}

fn body(sub: u64, w: &Workload, spec: &RunSpec, got: &RunOut, detail: Value) -> Value {
    json!({"engine": "procsim", "kind": "c14", "subseed_workload": sub, "explicit_paths": w.explicit, "binary_flag": w.binary_flag, "mmap": w.mmap, "read_fragmentation": w.frag, "mode": w.mode,
        "nul_placements": w.placements, "corpus": w.corpus.to_json(), "run": spec_json(spec), "observed": got.to_json(), "detail": detail})
}

pub fn run_workload(sub: u64, acc: &mut Acc, ctx: &Ctx, _thorough: bool) {
    let w = gen_workload(sub);
    let root = ctx.root();
    w.corpus.materialise(&root);
    let cwd = ctx.scratch.path().to_path_buf();
    let mut args: Vec<String> = ["--no-config", "--color=never", "-j1", "--sort=path", w.mmap].iter().map(|s| s.to_string()).collect();
    // flags that cancel each other leave nothing behind: binary detection is as if none was given
    const NOOPS: [&[&str]; 8] = [&[], &[], &[], &["--text", "--no-text"], &["--binary", "--no-binary"], &["--null-data", "--crlf", "--no-crlf"], &["-a", "--binary", "--no-binary", "--no-text"], &["--null-data", "--crlf", "--null-data", "--crlf", "--no-crlf"]];
    args.extend(NOOPS[Rng::new(sub ^ 0x0FF).below(NOOPS.len())].iter().map(|s| s.to_string()));
    if !w.binary_flag.is_empty() {
        args.push(w.binary_flag.into());
    }
    match w.mode {
        "lines" => args.extend(["-n".into(), "--no-heading".into(), "--with-filename".into()]),
        "count" => {
            args.extend(["-c".into(), "--with-filename".into()]);
            match sub % 4 {
                1 => args.push("--count-matches".into()),
                2 => args.push("--include-zero".into()),
                _ => {}
            }
        }
        "without-match" => args.push("--files-without-match".into()),
        "list" => args.push("-l".into()),
        "context" => args.extend(["-n".into(), "--no-heading".into(), "--with-filename".into(), "-C1".into()]),
        "multiline" => args.extend(["-n".into(), "--no-heading".into(), "--with-filename".into(), "-U".into()]),
        "limit-context" => {
            let (n, k) = w.limit.unwrap();
            args.extend(["-n".into(), "--no-heading".into(), "--with-filename".into(), format!("-m{n}"), format!("-A{k}")]);
        }
        "swarm" => {
            // any combination of output-shaping flags: whatever they do, no NUL byte of a
            // searched file may reach stdout (only that claim is judged in this mode)
            let mut r = Rng::new(sub ^ 0x5A4);
            for f in ["-o", "-rX", "-b", "--column", "--vimgrep", "-v", "-w", "--max-columns=30", "--max-columns-preview", "--passthru", "--json", "--heading", "-c", "--count-matches", "-l", "--files-without-match", "-A2", "-B1", "-C3", "--trim", "--crlf", "-U", "--multiline-dotall", "-L", "-m1", "-m3", "--no-line-number", "--with-filename", "--no-filename", "--context-separator=::", "--field-match-separator=|", "--include-zero", "--one-file-system", "--no-ignore", "-uu"] {
                if r.chance(1, 7) {
                    args.push(f.to_string());
                }
            }
            // combinations the command line itself rejects or that change the question
            if args.iter().any(|a| a == "--json") {
                args.retain(|a| !matches!(a.as_str(), "-c" | "--count-matches" | "-l" | "--files-without-match" | "--vimgrep" | "--heading" | "-rX" | "--include-zero"));
            }
        }
        _ => {}
    }
    args.extend(gen_harmless_flags(&mut Rng::new(sub ^ 0xF1A6), &["-i", "-S"]));
    if Rng::new(sub ^ 0x57A7).chance(1, 5) {
        // statistics switch on extra bookkeeping in the printers; the trailer they add to stdout
        // holds no file content
        args.push("--stats".into());
        acc.mix.inc("--stats");
    }
    // the same lines are selected by all of these; some could match a NUL byte themselves
    args.push(["foo", "foo", "foo[^z]?", "(?s-u)foo.?", "foo\\W?"][Rng::new(sub ^ 0x9A7).below(5)].into());
    if w.via_stdin {
        // no path: rg searches standard input (treated like an explicitly named file)
    } else if w.explicit {
        for (p, _) in &w.corpus.files {
            args.push(format!("w/{p}"));
        }
    } else {
        if w.failing_explicit.is_some() {
            let x = cwd.join("x");
            let _ = std::fs::create_dir_all(&x);
            std::fs::write(x.join("bad.txt"), b"foo in a file whose search fails\nmore foo\n").unwrap();
            args.push("x/bad.txt".into());
        }
        args.push("w".into());
    }
    let mut plan = if w.frag { vec!["read_frag=11".to_string()] } else { vec!["noop=1".to_string()] };
    match w.failing_explicit {
        Some("open") => plan.push("open_err=/x/bad.txt:13".into()),
        Some(_) => plan.push("read_err=/x/bad.txt:0:5".into()),
        None => {}
    }
    let spec = RunSpec { args, plan, stdin: if w.via_stdin { Some(w.corpus.files[0].1.clone()) } else { None }, ..RunSpec::default() };
    let got = ctx.run(&cwd, &spec, 60);
    acc.evals += 1;
    acc.digests.push((sub, digest_out(sub, &got)));
    acc.mix.inc(&format!("{}{}{}", if w.explicit { "explicit" } else { "implicit" }, if w.binary_flag.is_empty() { "/default".to_string() } else { format!("/{}", w.binary_flag) }, format!("/{}", w.mmap)));
    acc.mix.inc(&format!("mode:{}", w.mode));
    if w.via_stdin {
        acc.mix.inc("via-stdin");
    }
    if w.mode == "swarm" {
        acc.mix.inc(&format!("swarm:exit-{}", got.code));
    }
    if w.failing_explicit.is_some() {
        acc.faults.add("explicit-file-fails-before-traversal", got.fired("open_err") + got.fired("read_err"));
    }
    acc.faults.add("read-fragmentation", got.fired("read_frag"));
    for p in &w.placements {
        acc.faults.inc(&format!("NUL:{}", p.split(':').nth(1).unwrap_or("").split('@').next().unwrap_or("")));
    }
    let has_nul_files = w.corpus.files.iter().any(|(p, c)| w.utf16.get(p).unwrap_or(c).contains(&0));
    if !w.utf16.is_empty() {
        acc.mix.inc("a-file-in-UTF-16-with-a-mark");
    }
    if has_nul_files {
        acc.distinct.insert(fnv(&got.stdout) ^ sub);
    }
    if got.timed_out || got.code > 2 || got.code < 0 {
        acc.violation("C14", "crash-or-hang", format!("exit {} timed_out={}", got.code, got.timed_out), sub, body(sub, &w, &spec, &got, json!(null)));
        return;
    }
    // (S) the safety claim
    let text_mode = w.binary_flag == "--text";
    if !text_mode {
        if let Some(p) = got.stdout.iter().position(|&b| b == 0) {
            acc.violation("C14", &format!("nul-on-stdout:{}:{}", if w.explicit { "explicit" } else { "implicit" }, w.mmap), format!("a NUL byte was written to stdout at offset {p}: {:?}", show(&got.stdout[p.saturating_sub(60)..(p + 10).min(got.stdout.len())])), sub, body(sub, &w, &spec, &got, json!(null)));
            return;
        }
    }
    if w.mode == "swarm" && (w.explicit || w.binary_flag == "--binary" || text_mode) && !args_have(&spec.args, &["-v", "--files-without-match", "--json"]) {
        // Flags that only shape the output never change whether something matched: with every
        // file named explicitly (or --binary / --text) the exit status must be that of the same
        // search without them.
        const SHAPING: [&str; 24] = ["-o", "-rX", "-b", "--column", "--vimgrep", "--max-columns=30", "--max-columns-preview", "--passthru", "--heading", "-c", "--count-matches", "-l", "-A2", "-B1", "-C3", "--trim", "--no-line-number", "--with-filename", "--no-filename", "--context-separator=::", "--field-match-separator=|", "--include-zero", "-m1", "-m3"];
        let plain_spec = RunSpec { args: spec.args.iter().filter(|a| !SHAPING.contains(&a.as_str())).cloned().collect(), ..spec.clone() };
        if plain_spec.args.len() != spec.args.len() {
            let plain = ctx.run(&cwd, &plain_spec, 60);
            acc.evals += 1;
            if plain.code != got.code && plain.code <= 1 && got.code <= 1 && !plain.timed_out && !got.timed_out {
                acc.violation("C14", "output-shaping-flags-change-exit-status", format!("exit {} with {:?}, exit {} without the output-shaping flags among them", got.code, spec.args, plain.code), sub, body(sub, &w, &spec, &got, json!({"without_shaping_flags": plain.to_json(), "plain_args": plain_spec.args})));
            }
        }
    }
    if w.mode == "context" {
        // asking for context lines never changes whether anything matched
        let plain_spec = RunSpec { args: spec.args.iter().filter(|a| *a != "-C1").cloned().collect(), ..spec.clone() };
        let plain = ctx.run(&cwd, &plain_spec, 60);
        acc.evals += 1;
        if plain.code != got.code && !plain.timed_out && !got.timed_out {
            acc.violation("C14", "context-changes-exit-status", format!("exit {} with -C1, exit {} without it (same files, same pattern)", got.code, plain.code), sub, body(sub, &w, &spec, &got, json!({"without_context": plain.to_json()})));
        }
    }
    if matches!(w.mode, "count" | "without-match") && !text_mode && !w.explicit && w.binary_flag.is_empty() {
        // a traversed file with a NUL byte in the part that is examined up front is dropped: the
        // summary modes must not mention it at all (not with a count, not with a zero, not as a
        // file without a match)
        let out_lines = lines(&got.stdout);
        for (p, c) in &w.corpus.files {
            let c = w.utf16.get(p).unwrap_or(c);
            let Some(z) = c.iter().position(|&b| b == 0) else { continue };
            if z >= 65_536 {
                continue;
            }
            let label = format!("w/{p}");
            if out_lines.iter().any(|l| l.starts_with(format!("{label}:").as_bytes()) || *l == label.as_bytes()) {
                acc.violation("C14", &format!("dropped-binary-file-listed:{}", w.mode), format!("{label} has a NUL byte at offset {z} and was reached by traversal, yet the {} output mentions it", if w.mode == "count" { "count" } else { "--files-without-match" }), sub, body(sub, &w, &spec, &got, json!({"file": p, "first_nul": z})));
            }
        }
    }
    if matches!(w.mode, "context" | "count" | "list" | "multiline") && !text_mode {
        // with context lines requested: an explicitly named file (or any file under --binary)
        // that has a matching line may be reduced to the notice, but not to silence
        let convert = w.explicit || w.binary_flag == "--binary";
        if convert {
            let out_lines = lines(&got.stdout);
            for (p, c) in &w.corpus.files {
                let c = w.utf16.get(p).unwrap_or(c);
                if !c.contains(&0) {
                    continue;
                }
                let label = if w.via_stdin { "<stdin>".to_string() } else { format!("w/{p}") };
                let t = model_lines(&label, c);
                let any = out_lines.iter().any(|l| l.starts_with(format!("{label}:").as_bytes()) || l.starts_with(format!("{label}-").as_bytes()) || *l == label.as_bytes());
                if !t.is_empty() && !any {
                    acc.violation("C14", &format!("matching-binary-file-silent:{}", w.mode), format!("{label} has {} matching lines but in {} mode nothing at all was printed for it - neither a line, a count, its name nor a 'binary file matches' notice (exit {})", t.len(), w.mode, got.code), sub, body(sub, &w, &spec, &got, json!({"file": p, "model_lines": t.len()})));
                }
            }
        }
        return;
    }
    if w.mode != "lines" {
        return;
    }
    // per-file outcome model in the line mode
    let out_lines = lines(&got.stdout);
    for (p, c) in &w.corpus.files {
        let c = w.utf16.get(p).unwrap_or(c);
        let label = if w.via_stdin { "<stdin>".to_string() } else { format!("w/{p}") };
        let t = model_lines(&label, c);
        let mine: Vec<&[u8]> = out_lines.iter().cloned().filter(|l| l.starts_with(format!("{label}:").as_bytes())).collect();
        let is_notice = |l: &[u8]| l.windows(19).any(|x| x == b"binary file matches") || l.windows(30).any(|x| x == b"WARNING: stopped searching bin");
        let printed: Vec<&[u8]> = mine.iter().cloned().filter(|l| !is_notice(l)).collect();
        let notices: Vec<&[u8]> = mine.iter().cloned().filter(|l| is_notice(l)).collect();
        let detail = json!({"file": p, "model_lines": t.len(), "printed_lines": printed.len(), "notices": notices.len()});
        if text_mode || !c.contains(&0) {
            // (A) text mode / text files: exactly the model, no notice
            if printed.len() != t.len() || printed.iter().zip(t.iter()).any(|(a, b)| *a != &b[..]) || !notices.is_empty() {
                acc.violation("C14", if text_mode { "text-mode-differs-from-model" } else { "text-file-output-differs" }, format!("w/{p}: {} lines printed, model has {}; {} notices", printed.len(), t.len(), notices.len()), sub, body(sub, &w, &spec, &got, detail.clone()));
            }
            continue;
        }
        // a file with a NUL: printed lines are a NUL-free prefix of the model's lines
        let prefix = printed.len() <= t.len() && printed.iter().zip(t.iter()).all(|(a, b)| *a == &b[..]);
        if !prefix {
            acc.violation("C14", "binary-file-lines-not-a-prefix", format!("w/{p}: the lines printed for a file containing NUL are not a prefix of its matching lines"), sub, body(sub, &w, &spec, &got, detail.clone()));
            continue;
        }
        if notices.len() > 1 {
            acc.violation("C14", "more-than-one-notice", format!("w/{p}: {} binary notices", notices.len()), sub, body(sub, &w, &spec, &got, detail.clone()));
            continue;
        }
        let convert = w.explicit || w.binary_flag == "--binary";
        if convert {
            // (V) explicitly named or --binary: no output at all only if nothing matches
            if !t.is_empty() && printed.is_empty() && notices.is_empty() {
                acc.violation("C14", "matching-binary-file-silent", format!("w/{p} has matching lines but neither a line nor a 'binary file matches' notice was printed"), sub, body(sub, &w, &spec, &got, detail.clone()));
            }
            if let Some(n) = notices.first() {
                if mine.last().map(|l| *l != *n).unwrap_or(false) {
                    acc.violation("C14", "notice-not-last", format!("w/{p}: lines follow the binary notice"), sub, body(sub, &w, &spec, &got, detail.clone()));
                }
            }
        } else {
            // (Q) traversed file in default mode: dropped, or cut off with a warning
            if printed.is_empty() && !notices.is_empty() {
                acc.violation("C14", "warning-without-lines", format!("w/{p}: a warning but no line was printed"), sub, body(sub, &w, &spec, &got, detail.clone()));
            }
            if !printed.is_empty() && printed.len() < t.len() && notices.is_empty() {
                acc.violation("C14", "cut-off-without-warning", format!("w/{p}: {} of {} matching lines printed and no warning that the search stopped", printed.len(), t.len()), sub, body(sub, &w, &spec, &got, detail.clone()));
            }
            if let Some(n) = notices.first() {
                if mine.last().map(|l| *l != *n).unwrap_or(false) {
                    acc.violation("C14", "notice-not-last", format!("w/{p}: lines follow the warning"), sub, body(sub, &w, &spec, &got, detail.clone()));
                }
            }
        }
    }
    if acc.samples.len() < 2 && has_nul_files {
        acc.samples.push(json!({"subseed": sub, "leg": "cli", "argv": spec.args, "nul_placements": w.placements, "stdout": show(&got.stdout[..got.stdout.len().min(300)]), "exit": got.code}));
    }
}

pub fn replay(v: &Value) -> Vec<Violation> {
    let sub = v["subseed_workload"].as_u64().unwrap_or(1);
    let ctx = Ctx::new("c14replay");
    let mut acc = Acc::new();
    run_workload(sub, &mut acc, &ctx, true);
    acc.violations
}
