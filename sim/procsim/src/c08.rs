//! C08 — multi-threaded search output is a permutation of the per-file blocks
//! of the single-threaded output, under seeded schedules of rg's worker
//! threads (walker + search + print), with identical exit status.

use crate::common::*;
use serde_json::{json, Value};
use simcore::*;
use std::collections::BTreeSet;

const MODES: [&str; 17] = ["stdout-in-tree", "heading", "no-heading", "context-heading", "context-no-heading", "count", "files-with-matches", "files-without-match", "json", "files", "quiet", "sorted",
    // modes whose blocks cannot be told apart by a path (-I) or whose terminators are not "\n":
    // compared as multisets of output lines (every separator and terminator counts)
    "heading-no-filename", "context-no-filename", "crlf-context", "crlf-heading", "null-data-context"];

/// Modes compared line by line instead of block by block.
fn by_lines(mode: &str) -> bool {
    matches!(mode, "heading-no-filename" | "context-no-filename" | "crlf-context" | "crlf-heading" | "null-data-context")
}

#[derive(Clone, Debug)]
pub struct Workload {
    pub corpus: Corpus,
    pub mode: String,
    pub threads: usize,
    pub open_fault: Option<String>,
    /// A file whose j-th read fails with EIO (under read fragmentation), so
    /// that its search ends with an error after some results were produced.
    pub read_fault: Option<(String, usize)>,
    /// Files named explicitly on the command line (relative paths outside "w/"),
    /// in addition to the traversed directory.
    pub explicit: Vec<String>,
    /// Route files matching f1*.txt through a (scripted, `cat`-like)
    /// preprocessor: another code path inside the workers, same results.
    pub pre: bool,
    /// Which files go through the preprocessor ("" = all of them).
    pub pre_glob: &'static str,
    /// Only explicitly named files (2-8 of them), no directory: the command line then decides
    /// by itself whether files are memory-mapped - the same way for every thread count.
    pub explicit_only: bool,
    /// Flags that must not change the permutation property (same flags in
    /// the single-threaded reference and in the scheduled runs).
    pub extra_flags: Vec<String>,
}

pub fn gen_workload(sub: u64) -> Workload {
    let mut rng = Rng::new(sub);
    let max_files = if rng.chance(1, 3) { 24 } else { 9 };
    let mut corpus = gen_corpus(&mut rng, max_files, true);
    if rng.chance(1, 15) {
        // hundreds of tiny files: every worker searches and prints many files in a row
        let extra = 100 + rng.below(250);
        for i in 0..extra {
            let c = if rng.chance(1, 5) { format!("foo in tiny file {i}\n").into_bytes() } else { b"nothing here\n".to_vec() };
            corpus.files.push((format!("m{}/t{i}.txt", i % 7), c));
        }
    }
    if rng.chance(1, 4) {
        // symbolic links to files of the tree (searched only under -L, then under the link's name)
        let tops: Vec<String> = corpus.files.iter().map(|(p, _)| p.clone()).filter(|p| !p.contains('/')).collect();
        for (i, t) in tops.iter().take(2).enumerate() {
            corpus.links.push((format!("ln{i}.txt"), t.clone()));
        }
        if rng.chance(1, 2) {
            // ... and one that points nowhere (an error under -L, in every run alike)
            corpus.links.push(("ln-dangling.txt".into(), "no-such-target.txt".into()));
        }
    }
    let explicit_only = rng.chance(1, 8);
    if explicit_only {
        corpus.files.clear();
        corpus.links.clear();
        let ne = 2 + rng.below(7);
        for i in 0..ne {
            let nl = 3 + rng.below(30);
            let mut c = gen_text(&mut rng, nl, 4);
            match rng.below(4) {
                0 => c.extend_from_slice(b"foo first \0 foo second on the same line\nfoo afterwards\n"),
                1 => {
                    // a NUL beyond the first 64 KiB, in a line that does not match
                    while c.len() < 66_000 {
                        c.extend_from_slice(b"filler line without the word, filler line without the word, filler\n");
                        if c.len() % 7 == 0 {
                            c.extend_from_slice(b"foo in the long part\n");
                        }
                    }
                    c.extend_from_slice(b"some binary \0 here\nfoo after the nul\n");
                }
                _ => {}
            }
            corpus.files.push((format!("../x/e{i}.txt"), c));
        }
    }
    // Sometimes: files named explicitly next to the traversed directory, and
    // binary files (a match, later a NUL) among the traversed ones. Explicit
    // files are searched with a different binary-detection mode than traversed
    // ones; a worker handles both kinds in one run.
    let mut explicit: Vec<String> = if explicit_only { corpus.files.iter().map(|(p, _)| p.trim_start_matches("../").to_string()).collect() } else { vec![] };
    if !explicit_only && rng.chance(1, 3) {
        let ne = 1 + rng.below(2);
        for i in 0..ne {
            let nl = 3 + rng.below(20);
            let mut c = gen_text(&mut rng, nl, 4);
            if rng.chance(1, 2) {
                c.extend_from_slice(b"foo then binary \0 tail\n");
            }
            explicit.push(format!("x/e{i}.txt"));
            corpus.files.push((format!("../x/e{i}.txt"), c));
        }
        let nb = 1 + rng.below(4);
        for i in 0..nb {
            let mut c = b"foo in a binary file\n".to_vec();
            let nl = 2 + rng.below(10);
            c.extend_from_slice(&gen_text(&mut rng, nl, 2));
            c.push(0);
            c.extend_from_slice(b"more foo\n");
            corpus.files.push((format!("b{i}.bin"), c));
        }
    }
    let mode = MODES[rng.below(MODES.len())].to_string();
    let threads = if rng.chance(1, 8) { 9 + rng.below(8) } else { 2 + rng.below(7) };
    let open_fault = if rng.chance(1, 5) { Some(corpus.files[rng.below(corpus.files.len())].0.clone()) } else { None };
    let read_fault = if open_fault.is_none() && mode != "sorted" && mode != "quiet" && !by_lines(&mode) && rng.chance(1, 4) {
        // prefer a file that has matches early on
        let cands: Vec<&(String, Vec<u8>)> = corpus.files.iter().filter(|(_, c)| c.len() > 400 && c[..300].windows(3).any(|w| w == b"foo")).collect();
        if cands.is_empty() {
            None
        } else {
            Some((cands[rng.below(cands.len())].0.clone(), 4 + rng.below(6)))
        }
    } else {
        None
    };
    let (open_fault, read_fault) = if explicit.is_empty() { (open_fault, read_fault) } else { (None, None) };
    let pre = rng.chance(1, 5) && mode != "files" && !explicit_only;
    let pre_glob = ["f1*.txt", "f1*.txt", "*.txt", ""][rng.below(4)];
    let mut extra_flags = vec![];
    for f in ["--line-buffered", "--block-buffered", "--no-mmap", "--mmap", "-i", "--column", "--no-ignore", "--hidden", "-a", "--trim", "--no-unicode", "-U", "-U", "-z", "-Elatin1"] {
        if rng.chance(1, 9) && !(f == "--no-mmap" && extra_flags.iter().any(|x: &String| x == "--mmap")) && !(f == "--block-buffered" && extra_flags.iter().any(|x: &String| x == "--line-buffered")) {
            extra_flags.push(f.to_string());
        }
    }
    // A second, wider pool: the oracle is relative (-jN against -j1 of the same command), so any
    // flag that keeps every output line attributable to its file may take part.
    let heading = matches!(mode.as_str(), "heading" | "context-heading" | "sorted");
    for f in ["-w", "-F", "--max-count=2", "--max-columns=40", "--max-columns-preview", "--max-depth=2", "--max-filesize=2K", "-g!f1*", "-b", "-o", "--passthru", "-rX", "-N", "-v", "--no-messages", "--one-file-system", "-L", "--vimgrep", "--count-matches", "--include-zero", "--multiline-dotall", "--no-ignore-vcs"] {
        if !rng.chance(1, 16) {
            continue;
        }
        let ok = match f {
            // raw lines (possibly empty) would be taken for block separators under a heading
            // (--crlf and --null-data are left out: they change how headings, separators and
            // records are terminated, which this line-oriented block parser does not follow)
            "-N" => !heading && mode != "context-no-heading",
            // switches headings off
            "--vimgrep" => mode == "no-heading",
            "--count-matches" | "--include-zero" => mode == "count",
            "--passthru" => mode == "heading",
            "-o" | "-rX" => !extra_flags.iter().any(|x: &String| x == "--passthru"),
            _ => true,
        };
        if ok && mode != "files" && mode != "json" || matches!(f, "--max-depth=2" | "--max-filesize=2K" | "-g!f1*" | "-L" | "--one-file-system" | "--no-ignore-vcs") {
            extra_flags.push(f.to_string());
        }
    }
    if !corpus.links.is_empty() {
        // the links matter only when followed; a size limit then has to look at their targets
        if rng.chance(1, 2) {
            extra_flags.push("-L".into());
        }
        if rng.chance(1, 2) {
            extra_flags.push(["--max-filesize=2K", "--max-filesize=300"][rng.below(2)].into());
        }
    }
    if mode == "stdout-in-tree" && rng.chance(2, 3) {
        extra_flags.push("-L".into());
    }
    extra_flags.dedup();
    if mode == "json" || mode == "files" {
        extra_flags.retain(|f| f != "--column" && f != "--trim");
    }
    Workload { corpus, mode, threads, open_fault, read_fault, explicit, pre, pre_glob, explicit_only, extra_flags }
}

fn args_for(w: &Workload, threads: usize) -> Vec<String> {
    let mut a: Vec<String> = vec!["--no-config".into(), "--color=never".into(), format!("-j{threads}")];
    match w.mode.as_str() {
        "heading" => a.extend(["--heading".into(), "-n".into()]),
        // (standard output is a file inside the searched directory, as with `rg pat dir > dir/out`)
        "no-heading" | "stdout-in-tree" => a.extend(["--no-heading".into(), "-n".into()]),
        "context-heading" => a.extend(["--heading".into(), "-n".into(), "-C1".into()]),
        "context-no-heading" => a.extend(["--no-heading".into(), "-n".into(), "-C1".into()]),
        "count" => a.push("-c".into()),
        "files-with-matches" => a.push("-l".into()),
        "files-without-match" => a.push("--files-without-match".into()),
        "json" => a.push("--json".into()),
        "files" => a.push("--files".into()),
        "quiet" => a.push("-q".into()),
        "sorted" => a.extend(["--sort=path".into(), "--heading".into(), "-n".into()]),
        "heading-no-filename" => a.extend(["--heading".into(), "-I".into(), "-n".into()]),
        "context-no-filename" => a.extend(["--no-heading".into(), "--no-filename".into(), "-n".into(), "-C1".into()]),
        "crlf-context" => a.extend(["--crlf".into(), "--no-heading".into(), "-n".into(), "-C1".into()]),
        "crlf-heading" => a.extend(["--crlf".into(), "--heading".into(), "-n".into()]),
        "null-data-context" => a.extend(["--null-data".into(), "--no-heading".into(), "-n".into(), "-C1".into()]),
        _ => {}
    }
    a.extend(w.extra_flags.iter().cloned());
    if w.read_fault.is_some() && !w.extra_flags.iter().any(|f| f == "--no-mmap") {
        a.retain(|f| f != "--mmap");
        a.push("--no-mmap".into());
    }
    if w.pre {
        a.extend(["--pre".into(), STUB.into()]);
        if !w.pre_glob.is_empty() {
            a.extend(["--pre-glob".into(), w.pre_glob.into()]);
        }
    }
    if w.mode != "files" {
        // with -U some workloads use a pattern that can match across lines, so
        // that the searcher really takes its whole-buffer multi-line strategy
        let ml = w.extra_flags.iter().any(|f| f == "-U");
        a.push(if ml && w.corpus.files.len() % 3 != 0 { ["foo\\s+\\w", "foo[^z]*?\\n"][w.corpus.files.len() % 2] } else { "foo" }.into());
    }
    if w.explicit_only {
        a.retain(|f| f != "--mmap" && f != "--no-mmap");
        a.extend(w.explicit.iter().cloned());
    } else if w.explicit.is_empty() {
        a.push("w".into());
    } else if w.threads % 2 == 0 {
        a.extend(w.explicit.iter().cloned());
        a.push("w".into());
    } else {
        a.push("w".into());
        a.extend(w.explicit.iter().cloned());
    }
    a
}

/// True if the block (in this mode's canonical form) belongs to `path`.
fn block_of(mode: &str, block: &[u8], path: &str) -> bool {
    let p = format!("w/{path}");
    match mode {
        "json" => block.windows(p.len() + 2).any(|w| w[0] == b'"' && &w[1..p.len() + 1] == p.as_bytes() && w[p.len() + 1] == b'"') && block.starts_with(b"{\"type\":\"begin\""),
        _ => block.starts_with(p.as_bytes()) && matches!(block.get(p.len()), Some(b'\n') | Some(b':') | Some(b'-') | None),
    }
}

/// Parses stdout into per-file blocks (canonical bytes per block). An error
/// means the block structure itself is broken (a file's results not
/// contiguous, separators misplaced).
pub fn blocks(mode: &str, out: &[u8]) -> Result<Vec<Vec<u8>>, String> {
    blocks_tolerating(mode, out, None)
}

/// `failed`: a file whose search is known to end with an error; when results
/// are streamed its JSON block is legitimately left without an `end` message.
pub fn blocks_tolerating(mode: &str, out: &[u8], failed: Option<&str>) -> Result<Vec<Vec<u8>>, String> {
    match mode {
        m if by_lines(m) => Ok(out.split_inclusive(|&b| b == b'\n').map(|l| l.to_vec()).collect()),
        "heading" | "context-heading" | "sorted" => {
            if out.is_empty() {
                return Ok(vec![]);
            }
            if out.starts_with(b"\n") {
                return Err("output starts with a file separator".into());
            }
            if !out.ends_with(b"\n") || out.ends_with(b"\n\n") {
                return Err("output does not end with exactly one newline (separator at the end?)".into());
            }
            let body = &out[..out.len() - 1];
            let mut v = vec![];
            let mut start = 0;
            let mut i = 0;
            while i + 1 < body.len() {
                if body[i] == b'\n' && body[i + 1] == b'\n' {
                    v.push(body[start..i].to_vec());
                    start = i + 2;
                    i += 2;
                    if body.get(start) == Some(&b'\n') {
                        return Err("two consecutive file separators".into());
                    }
                } else {
                    i += 1;
                }
            }
            v.push(body[start..].to_vec());
            // each block starts with a heading; no heading twice
            let mut seen = BTreeSet::new();
            for b in &v {
                let head = b.split(|&c| c == b'\n').next().unwrap_or(b"").to_vec();
                if !head.starts_with(b"w/") && !head.starts_with(b"x/") {
                    return Err(format!("block does not start with a path heading: {:?}", show(&head)));
                }
                if !seen.insert(head.clone()) {
                    return Err(format!("file reported in two blocks: {}", show(&head)));
                }
            }
            Ok(v)
        }
        "context-no-heading" => {
            // "path:N:text" / "path-N-text" lines; "--" separates groups within
            // a file and files from each other. Structure: no separator first or
            // last, never two in a row; per-file blocks keep their inner separators.
            let ls = lines(out);
            if ls.first().map_or(false, |l| *l == b"--") || ls.last().map_or(false, |l| *l == b"--") {
                return Err("context separator at the start or end of the output".into());
            }
            let mut v: Vec<Vec<u8>> = vec![];
            let mut cur_path: Option<Vec<u8>> = None;
            let mut seen = BTreeSet::new();
            let mut pending_sep = false;
            for l in ls {
                if l == b"--" {
                    if pending_sep {
                        return Err("two context separators in a row".into());
                    }
                    pending_sep = true;
                    continue;
                }
                let end = l.iter().position(|&c| c == b':' || c == b'-').unwrap_or(l.len());
                // paths contain no ':' and no '-' in this corpus
                let p = l[..end].to_vec();
                if cur_path.as_ref() != Some(&p) {
                    if cur_path.is_some() && !pending_sep {
                        return Err(format!("no separator between the results of two files (before {})", show(&p)));
                    }
                    if !seen.insert(p.clone()) {
                        return Err(format!("results of {} are not contiguous", show(&p)));
                    }
                    cur_path = Some(p);
                    v.push(vec![]);
                } else if pending_sep {
                    v.last_mut().unwrap().extend_from_slice(b"--\n");
                }
                pending_sep = false;
                let b = v.last_mut().unwrap();
                b.extend_from_slice(l);
                b.push(b'\n');
            }
            Ok(v)
        }
        "no-heading" | "stdout-in-tree" => {
            let mut v: Vec<Vec<u8>> = vec![];
            let mut cur_path: Option<Vec<u8>> = None;
            let mut seen = BTreeSet::new();
            for l in lines(out) {
                let p = l.split(|&c| c == b':').next().unwrap_or(b"").to_vec();
                if cur_path.as_ref() != Some(&p) {
                    if !seen.insert(p.clone()) {
                        return Err(format!("results of {} are not contiguous", show(&p)));
                    }
                    cur_path = Some(p);
                    v.push(vec![]);
                }
                let b = v.last_mut().unwrap();
                b.extend_from_slice(l);
                b.push(b'\n');
            }
            Ok(v)
        }
        "count" | "files-with-matches" | "files-without-match" | "files" => {
            let v: Vec<Vec<u8>> = lines(out).into_iter().map(|l| l.to_vec()).collect();
            let mut seen = BTreeSet::new();
            for l in &v {
                let p = l.split(|&c| c == b':').next().unwrap_or(b"").to_vec();
                if !seen.insert(p.clone()) {
                    return Err(format!("file listed twice: {}", show(&p)));
                }
            }
            Ok(v)
        }
        "json" => {
            let mut v: Vec<Vec<u8>> = vec![];
            let mut cur: Option<(String, Vec<u8>)> = None;
            let mut seen = BTreeSet::new();
            let mut summaries = 0;
            for l in lines(out) {
                let j: Value = serde_json::from_slice(l).map_err(|e| format!("unparsable JSON line: {e}"))?;
                let ty = j["type"].as_str().unwrap_or("");
                let path = j["data"]["path"]["text"].as_str().unwrap_or("").to_string();
                match ty {
                    "begin" => {
                        if let Some((p, b)) = cur.take() {
                            if failed.map(|f| format!("w/{f}")) == Some(p.clone()) {
                                v.push(b); // unterminated block of the failed file
                            } else {
                                return Err("begin inside an open file block".into());
                            }
                        }
                        if !seen.insert(path.clone()) {
                            return Err(format!("file {path} reported twice"));
                        }
                        cur = Some((path, mask_times(l)));
                    }
                    "match" | "context" => match cur.as_mut() {
                        Some((p, b)) if *p == path => {
                            b.push(b'\n');
                            b.extend_from_slice(l);
                        }
                        _ => return Err(format!("{ty} message for {path} outside its begin/end block")),
                    },
                    "end" => match cur.take() {
                        Some((p, mut b)) if p == path => {
                            b.push(b'\n');
                            b.extend_from_slice(&mask_times(l));
                            v.push(b);
                        }
                        _ => return Err(format!("end message for {path} without matching begin")),
                    },
                    "summary" => {
                        summaries += 1;
                        if let Some((p, b)) = cur.take() {
                            if failed.map(|f| format!("w/{f}")) == Some(p.clone()) {
                                v.push(b);
                            } else {
                                return Err("summary inside an open file block".into());
                            }
                        }
                        v.push(mask_times(l));
                    }
                    _ => return Err(format!("unknown message type {ty}")),
                }
            }
            if cur.is_some() {
                return Err("file block not closed".into());
            }
            if summaries > 1 {
                return Err("more than one summary".into());
            }
            Ok(v)
        }
        "quiet" => {
            if out.is_empty() {
                Ok(vec![])
            } else {
                Err("-q printed to stdout".into())
            }
        }
        _ => Err("unknown mode".into()),
    }
}

/// Diagnostics as a multiset of lines. The two walkers word the same failure differently (the
/// single-threaded one goes through the walkdir crate: "IO error for operation on PATH: ..."):
/// what is compared is which path failed with which OS error, not the wording.
fn sorted_lines(b: &[u8]) -> Vec<Vec<u8>> {
    let mut v: Vec<Vec<u8>> = lines(b)
        .into_iter()
        .map(|l| {
            let s = String::from_utf8_lossy(l).into_owned();
            match (s.find("IO error for operation on "), s.rfind(": ")) {
                (Some(i), Some(_)) => {
                    // "rg: P: IO error for operation on P: MSG" -> "rg: P: MSG"
                    let rest = &s[i + "IO error for operation on ".len()..];
                    match rest.find(": ") {
                        Some(j) => format!("{}{}", &s[..i], &rest[j + 2..]).into_bytes(),
                        None => s.into_bytes(),
                    }
                }
                _ => s.into_bytes(),
            }
        })
        .collect();
    v.sort();
    v
}

fn body(sub: u64, w: &Workload, spec: &RunSpec, reference: &RunOut, got: &RunOut) -> Value {
    json!({"engine": "procsim", "kind": "c08", "subseed_workload": sub, "mode": w.mode, "threads": w.threads, "corpus": w.corpus.to_json(), "run": spec_json(spec),
        "reference_single_threaded": reference.to_json(), "observed": got.to_json()})
}

/// Judges one multi-threaded run against the single-threaded reference.
fn judge(w: &Workload, ref_blocks: &[Vec<u8>], reference: &RunOut, got: &RunOut) -> Option<(String, String)> {
    if got.timed_out {
        return Some(("hang".into(), "the multi-threaded run did not end".into()));
    }
    if let Some(f) = got.sched.as_ref().and_then(|s| s.failure.clone()) {
        let class = if f.starts_with("HANG") { "hang" } else if f.starts_with("PANIC") { "worker-panic" } else { "no-termination" };
        return Some((class.into(), f));
    }
    if got.code != reference.code {
        return Some(("exit-status-differs".into(), format!("exit {} with {} threads, {} with one", got.code, w.threads, reference.code)));
    }
    // -q stops at the first match: which files (and therefore which faults)
    // are reached before that legitimately depends on the traversal order
    if w.mode != "quiet" && sorted_lines(&got.stderr) != sorted_lines(&reference.stderr) {
        return Some(("stderr-differs".into(), format!("stderr differs: {:?} vs {:?}", show(&got.stderr), show(&reference.stderr))));
    }
    if w.mode == "stdout-in-tree" && lines(&got.stdout).iter().any(|l| l.starts_with(b"w/zz-out.txt") || l.starts_with(b"w/zz-link.txt")) {
        return Some(("searched-its-own-output".into(), "standard output is w/zz-out.txt, and results from that file are in it".into()));
    }
    if w.mode == "sorted" {
        if got.stdout != reference.stdout {
            return Some(("sorted-output-differs".into(), "--sort path output is not byte-identical to the single-threaded output".into()));
        }
        return None;
    }
    let gb = match blocks_tolerating(&w.mode, &got.stdout, w.read_fault.as_ref().map(|(p, _)| p.as_str())) {
        Ok(b) => b,
        Err(e) => return Some(("block-structure-broken".into(), e)),
    };
    let mut a = gb.clone();
    let mut b = ref_blocks.to_vec();
    if let Some((p, _)) = &w.read_fault {
        // A file whose search fails part-way contributes a partial block when
        // results are streamed (one thread) and nothing when they are buffered
        // per file (several threads); both are fine (C16: any prefix). All the
        // other blocks must be untouched - in particular nothing of the failed
        // file may leak into another file's block.
        a.retain(|x| !block_of(&w.mode, x, p));
        b.retain(|x| !block_of(&w.mode, x, p));
    }
    a.sort();
    b.sort();
    if a != b && w.mode == "null-data-context" {
        // the one listed difference: records end with NUL, the printer ends the separator between
        // two files with NUL as well, the multi-threaded writer ends it with a line feed. Anything
        // beyond exactly that is reported as blocks-differ.
        let canon = |o: &[u8]| -> Vec<Vec<u8>> {
            let mut v: Vec<u8> = vec![];
            let mut i = 0;
            while i < o.len() {
                if o[i..].starts_with(b"\0--\n") {
                    v.extend_from_slice(b"\0--\0");
                    i += 4;
                } else {
                    v.push(o[i]);
                    i += 1;
                }
            }
            let mut r: Vec<Vec<u8>> = v.split_inclusive(|&b| b == 0).map(|l| l.to_vec()).collect();
            r.sort();
            r
        };
        if canon(&got.stdout) == canon(&reference.stdout) && got.stdout.len() == reference.stdout.len() {
            return Some(("file-separator-terminator-differs:null-data".into(), "with --null-data the separator between two files ends with NUL when printed by one thread and with a line feed when printed by several".into()));
        }
    }
    if a != b {
        let missing = b.iter().filter(|x| !a.contains(x)).count();
        let extra = a.iter().filter(|x| !b.contains(x)).count();
        return Some(("blocks-differ".into(), format!("per-file blocks are not a permutation of the single-threaded blocks: {missing} missing or changed, {extra} extra or changed ({} vs {} blocks)", a.len(), b.len())));
    }
    None
}

pub fn run_workload(sub: u64, only_seed: Option<u64>, acc: &mut Acc, ctx: &Ctx, thorough: bool) {
    let w = gen_workload(sub);
    let mut rng = Rng::new(sub ^ 0xC08);
    let root = ctx.root();
    w.corpus.materialise(&root);
    let cwd = ctx.scratch.path().to_path_buf();
    let mut plan: Vec<String> = match (&w.open_fault, &w.read_fault) {
        (Some(p), _) => vec![format!("open_err=/w/{p}:13")],
        (None, Some((p, j))) => vec![format!("read_err=/w/{p}:{j}:5"), "read_frag=3".into()],
        _ => vec!["noop=1".into()],
    };
    if rng.chance(1, 8) && !w.explicit_only {
        // a directory cannot be opened at all (unreadable, vanished): reported once, by every run alike
        let mut dirs: Vec<String> = w.corpus.files.iter().filter_map(|(p, _)| p.rfind('/').map(|i| p[..i].to_string())).filter(|d| !d.starts_with("..")).collect();
        dirs.sort();
        dirs.dedup();
        if !dirs.is_empty() {
            plan.push(format!("opendir_err=/w/{}:13", dirs[rng.below(dirs.len())]));
        }
    }
    if rng.chance(1, 8) && !w.explicit_only {
        // a directory cannot be listed to the end (in the reference run and in every scheduled run)
        let mut dirs: Vec<String> = w.corpus.files.iter().filter_map(|(p, _)| p.rfind('/').map(|i| p[..i].to_string())).filter(|d| !d.starts_with("..")).collect();
        dirs.sort();
        dirs.dedup();
        let suffix = if dirs.is_empty() || rng.chance(1, 3) { "/w".to_string() } else { format!("/w/{}", dirs[rng.below(dirs.len())]) };
        plan.push(format!("readdir_err={suffix}:{}:5", rng.below(5)));
    }
    if rng.chance(1, 6) {
        // stdout takes 1-97 bytes per write and answers EINTR now and then: a worker's buffer is
        // then written piecemeal while it holds the output lock
        plan.push(format!("stdout_frag={}", 1 + rng.below(1000)));
        plan.push(format!("stdout_eintr={}", rng.below(8)));
    }
    if rng.chance(1, 6) {
        // the stat of two files fails once they are open (in the reference run and in every
        // scheduled run alike): a lost size hint must not make a file's block depend on what
        // the same worker searched before
        for _ in 0..2 {
            let v = &w.corpus.files[rng.below(w.corpus.files.len())].0;
            if !v.starts_with("../") {
                plan.push(format!("fstat_err=/w/{v}:5"));
            }
        }
    }
    acc.mix.inc(&format!("mode:{}", w.mode));
    acc.mix.inc(&format!("threads:{}", w.threads));
    if plan.iter().any(|p| p.starts_with("fstat_err")) {
        acc.mix.inc("fstat-of-opened-files-fails");
    }
    for f in &w.extra_flags {
        acc.mix.inc(&format!("flag:{f}"));
    }
    // single-threaded reference: no scheduler involved
    let stdout_file = if w.mode == "stdout-in-tree" { Some("w/zz-out.txt".to_string()) } else { None };
    if w.mode == "stdout-in-tree" && root.is_dir() {
        // the output file is also reachable under another name (with -L, which some of these
        // workloads pass, that name is the same file and must be left alone as well)
        let _ = std::fs::write(root.join("zz-out.txt"), b"");
        let _ = std::os::unix::fs::symlink("zz-out.txt", root.join("zz-link.txt"));
    }
    let ref_spec = RunSpec { args: args_for(&w, 1), plan: plan.clone(), stdout_file: stdout_file.clone(), ..RunSpec::default() };
    let reference = ctx.run(&cwd, &ref_spec, 60);
    acc.evals += 1;
    let mut digest = digest_out(sub, &reference);
    let ref_blocks = match blocks_tolerating(&w.mode, &reference.stdout, w.read_fault.as_ref().map(|(p, _)| p.as_str())) {
        Ok(b) => b,
        Err(e) => {
            acc.violation("C08", "reference-block-structure", format!("single-threaded output does not parse into per-file blocks: {e}"), sub, body(sub, &w, &ref_spec, &reference, &reference));
            return;
        }
    };
    let n_sched = if thorough { 24 } else { 5 };
    let mut perms: BTreeSet<u64> = BTreeSet::new();
    for i in 0..n_sched {
        let sched = gen_sched(&mut rng);
        if let Some(s) = only_seed {
            if s != sched.seed {
                continue;
            }
        }
        let spec = RunSpec { args: args_for(&w, w.threads), plan: plan.clone(), sched: Some(sched), stdout_file: stdout_file.clone(), ..RunSpec::default() };
        let got = ctx.run(&cwd, &spec, 60);
        acc.evals += 1;
        digest = digest_out(digest, &got);
        if let Some(s) = &got.sched {
            acc.sim_ms += s.idle_ms;
            acc.faults.add("preemption", s.preemptions);
            acc.faults.add("idle-sleep-simulated", s.idle_ms);
            if s.preemptions > 0 {
                acc.distinct.insert(s.hash);
            }
            acc.probes.add("steal-succeeded", (s.steals_ok > 0) as u64);
        } else if w.mode != "sorted" {
            // no parallel walk took place in this run (the binary chose a
            // single-threaded path); the output is judged all the same
            acc.probes.inc("multi-threaded-run-without-a-scheduled-walk");
        }
        acc.faults.add("open-EACCES", got.fired("open_err"));
        acc.faults.add("read-EIO-mid-file", got.fired("read_err"));
        acc.faults.add("read-fragmentation", got.fired("read_frag"));
        perms.insert(fnv(&mask_times(&got.stdout)));
        if let Some((class, summary)) = judge(&w, &ref_blocks, &reference, &got) {
            acc.violation("C08", &class, summary, sub, body(sub, &w, &spec, &reference, &got));
        }
        // determinism: the first schedule again must give byte-identical output
        if i == 0 && only_seed.is_none() {
            let again = ctx.run(&cwd, &spec, 60);
            acc.evals += 1;
            if mask_times(&again.stdout) != mask_times(&got.stdout) || again.code != got.code || again.sched.as_ref().map(|s| s.hash) != got.sched.as_ref().map(|s| s.hash) {
                harness_error(&format!("the same schedule seed produced different output (workload sub-seed {sub})"));
            }
        }
    }
    if perms.len() > 1 {
        acc.probes.inc("workloads-with-more-than-one-block-order-observed");
    }
    acc.probes.add("distinct-output-orders", perms.len() as u64);
    acc.digests.push((sub, digest));
    if acc.samples.len() < 2 && perms.len() > 1 {
        acc.samples.push(json!({"subseed": sub, "mode": w.mode, "threads": w.threads, "files": w.corpus.files.iter().map(|(p, c)| format!("{p} ({} bytes)", c.len())).collect::<Vec<_>>(),
            "argv_multi": args_for(&w, w.threads), "argv_reference": args_for(&w, 1), "blocks_in_reference": ref_blocks.len(), "distinct_block_orders_observed": perms.len(), "schedules_run": n_sched}));
    }
}

pub fn replay(v: &Value) -> Vec<Violation> {
    let sub = v["subseed_workload"].as_u64().unwrap_or(1);
    let seed = v["run"]["schedule"]["seed"].as_u64();
    let ctx = Ctx::new("c08replay");
    let mut acc = Acc::new();
    run_workload(sub, seed, &mut acc, &ctx, true);
    acc.violations
}
