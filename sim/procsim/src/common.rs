//! Shared machinery of the process-level simulator: corpus generation,
//! running the real `rg` binary under the fault shim and/or the scheduler
//! plugin with a scrubbed environment, and collecting everything observable.

use serde_json::{json, Value};
use simcore::*;
use std::collections::BTreeMap;
use std::io::Read;
use std::path::{Path, PathBuf};
use std::process::{Command, Stdio};

pub const RG: &str = "/verif/target/rg/release/rg";
pub const SHIM: &str = "/verif/sim/faultshim/faultshim.so";
pub const SCHED: &str = "/verif/target/release/libvsched.so";
pub const STUB: &str = "/verif/target/release/childstub";

#[derive(Clone, Debug)]
pub struct Corpus {
    /// (relative path, contents); directories are implied.
    pub files: Vec<(String, Vec<u8>)>,
    /// (relative path, target) symlinks.
    pub links: Vec<(String, String)>,
}

impl Corpus {
    pub fn to_json(&self) -> Value {
        json!({
            "files": self.files.iter().map(|(p, c)| json!([p, if c.len() <= 400 { json!(show(c)) } else { json!(format!("<{} bytes, fnv {:016x}>", c.len(), fnv(c))) }, hex_if_small(c)])).collect::<Vec<_>>(),
            "links": self.links,
        })
    }
    pub fn from_json(v: &Value) -> Corpus {
        Corpus {
            files: v["files"].as_array().map(|a| a.iter().map(|f| (f[0].as_str().unwrap_or("").to_string(), unhex(f[2].as_str().unwrap_or("")))).collect()).unwrap_or_default(),
            links: v["links"].as_array().map(|a| a.iter().map(|l| (l[0].as_str().unwrap_or("").to_string(), l[1].as_str().unwrap_or("").to_string())).collect()).unwrap_or_default(),
        }
    }
    pub fn materialise(&self, root: &Path) {
        let _ = std::fs::remove_dir_all(root);
        std::fs::create_dir_all(root).unwrap();
        for (p, c) in &self.files {
            let fp = root.join(p);
            std::fs::create_dir_all(fp.parent().unwrap()).unwrap();
            std::fs::write(&fp, c).unwrap();
        }
        for (p, t) in &self.links {
            let fp = root.join(p);
            std::fs::create_dir_all(fp.parent().unwrap()).unwrap();
            let _ = std::os::unix::fs::symlink(t, &fp);
        }
    }
}

fn hex_if_small(c: &[u8]) -> String {
    // replay files must be self-contained; large generated files are
    // regenerated from the sub-seed instead (the replay keeps the sub-seed)
    if c.len() <= 4096 {
        hex(c)
    } else {
        String::new()
    }
}

const WORDS: [&str; 10] = ["foo", "bar", "baz", "needle", "x", "", "fooo", "zebra", "quux", "of"];

pub fn gen_text(rng: &mut Rng, lines: usize, hit_per_16: usize) -> Vec<u8> {
    let mut d = vec![];
    for _ in 0..lines {
        let nw = rng.below(6);
        for w in 0..nw {
            if w > 0 {
                d.push(b' ');
            }
            let word = if rng.below(16) < hit_per_16 { "foo" } else { WORDS[1 + rng.below(WORDS.len() - 1)] };
            d.extend_from_slice(word.as_bytes());
        }
        d.push(b'\n');
    }
    d
}

/// A small tree of text files of widely different sizes.
pub fn gen_corpus(rng: &mut Rng, max_files: usize, big: bool) -> Corpus {
    let ndirs = rng.below(4);
    let mut dirs = vec![String::new()];
    for i in 0..ndirs {
        let parent = dirs[rng.below(dirs.len())].clone();
        dirs.push(format!("{parent}d{i}/"));
    }
    let nf = 2 + rng.below(max_files.max(3) - 1);
    let mut files = vec![];
    for i in 0..nf {
        let dir = &dirs[rng.below(dirs.len())];
        let lines = match rng.below(10) {
            0 => 0,
            1..=5 => 1 + rng.below(12),
            6..=8 => 20 + rng.below(200),
            _ => {
                if big {
                    2000 + rng.below(8000)
                } else {
                    300 + rng.below(600)
                }
            }
        };
        let hit = match rng.below(4) {
            0 => 0,
            1 => 1,
            _ => 3,
        };
        let mut c = gen_text(rng, lines, hit);
        if !c.is_empty() && rng.chance(1, 8) {
            c.pop(); // no final newline
        }
        files.push((format!("{dir}f{i}.txt"), c));
    }
    files.sort();
    Corpus { files, links: vec![] }
}

#[derive(Clone, Debug, Default)]
pub struct Sched {
    pub seed: u64,
    pub strategy: String,
    pub replay: Vec<u8>,
    pub strict: bool,
}

#[derive(Clone, Debug, Default)]
pub struct RunSpec {
    pub args: Vec<String>,
    /// FAULTSHIM_PLAN directives.
    pub plan: Vec<String>,
    pub sched: Option<Sched>,
    pub env: Vec<(String, String)>,
    /// Bytes to feed on stdin (None = /dev/null).
    pub stdin: Option<Vec<u8>>,
    pub path_prefix: Option<String>,
    /// Standard output is this file (relative to the working directory, created or truncated
    /// before rg starts, as a shell does for `> file`); its content is reported as stdout.
    pub stdout_file: Option<String>,
}

#[derive(Clone, Debug, Default)]
pub struct RunOut {
    pub stdout: Vec<u8>,
    pub stderr: Vec<u8>,
    pub code: i32,
    pub timed_out: bool,
    pub shim: BTreeMap<String, u64>,
    pub sched: Option<vsched::Outcome>,
}

impl RunOut {
    pub fn fired(&self, k: &str) -> u64 {
        self.shim.get(k).copied().unwrap_or(0)
    }
    pub fn to_json(&self) -> Value {
        json!({"stdout": show(&self.stdout), "stderr": show(&self.stderr), "exit": self.code, "timed_out": self.timed_out, "shim_fired": self.shim,
               "schedule": self.sched.as_ref().map(|o| json!({"steps": o.steps, "choices": o.choices, "failure": o.failure}))})
    }
}

thread_local!(pub static TRACE: std::cell::RefCell<Vec<String>> = Default::default());

pub struct Ctx {
    pub scratch: Scratch,
    n: std::cell::Cell<u64>,
}

impl Ctx {
    pub fn new(tag: &str) -> Ctx {
        let scratch = Scratch::new(tag);
        std::fs::create_dir_all(scratch.path().join("home")).unwrap();
        Ctx { scratch, n: std::cell::Cell::new(0) }
    }
    pub fn root(&self) -> PathBuf {
        self.scratch.path().join("w")
    }

    /// Runs rg in `cwd` with a scrubbed environment. Everything that could make
    /// the run depend on the machine (config files, HOME, tty, locale, thread
    /// count defaults) is pinned.
    pub fn run(&self, cwd: &Path, spec: &RunSpec, timeout_s: u64) -> RunOut {
        // A run that exceeds its wall-clock cap is executed once more, with a
        // longer cap, before it counts as "did not end": the machine may
        // simply be busy, and a real hang exceeds any cap.
        let first = self.run_once(cwd, spec, timeout_s);
        if !first.timed_out {
            return first;
        }
        self.run_once(cwd, spec, timeout_s * 3)
    }

    fn run_once(&self, cwd: &Path, spec: &RunSpec, timeout_s: u64) -> RunOut {
        let id = self.n.get();
        self.n.set(id + 1);
        let shim_out = self.scratch.path().join(format!("shim-{id}.out"));
        let sched_out = self.scratch.path().join(format!("sched-{id}.out"));
        let mut cmd = Command::new(RG);
        cmd.args(&spec.args).current_dir(cwd).env_clear();
        let home = self.scratch.path().join("home");
        cmd.env("PATH", format!("{}/usr/bin:/bin", spec.path_prefix.clone().map(|p| p + ":").unwrap_or_default()));
        cmd.env("HOME", &home).env("XDG_CONFIG_HOME", &home).env("LC_ALL", "C").env("TERM", "dumb");
        let mut preload = vec![];
        if !spec.plan.is_empty() {
            preload.push(SHIM.to_string());
            cmd.env("FAULTSHIM_ROOT", self.scratch.path()).env("FAULTSHIM_PLAN", spec.plan.join(";")).env("FAULTSHIM_OUT", &shim_out);
        }
        if let Some(s) = &spec.sched {
            preload.push(SCHED.to_string());
            cmd.env("RGSCHED_OUT", &sched_out).env("RGSCHED_SEED", s.seed.to_string()).env("RGSCHED_STRATEGY", &s.strategy);
            if !s.replay.is_empty() {
                cmd.env("RGSCHED_REPLAY", s.replay.iter().map(|c| c.to_string()).collect::<Vec<_>>().join(","));
            }
            if s.strict {
                cmd.env("RGSCHED_STRICT", "1");
            }
        }
        if !preload.is_empty() {
            cmd.env("LD_PRELOAD", preload.join(":"));
        }
        for (k, v) in &spec.env {
            cmd.env(k, v);
        }
        cmd.stdin(if spec.stdin.is_some() { Stdio::piped() } else { Stdio::null() }).stderr(Stdio::piped());
        match &spec.stdout_file {
            Some(f) => {
                let file = std::fs::File::create(cwd.join(f)).unwrap_or_else(|e| harness_error(&format!("cannot create {f}: {e}")));
                cmd.stdout(file);
            }
            None => {
                cmd.stdout(Stdio::piped());
            }
        }
        let mut child = cmd.spawn().unwrap_or_else(|e| harness_error(&format!("cannot start {RG}: {e}")));
        if let Some(data) = &spec.stdin {
            let mut si = child.stdin.take().unwrap();
            let data = data.clone();
            std::thread::spawn(move || {
                use std::io::Write;
                let _ = si.write_all(&data);
            });
        }
        let so = child.stdout.take();
        let mut se = child.stderr.take().unwrap();
        let t_out = std::thread::spawn(move || {
            let mut v = vec![];
            if let Some(mut so) = so {
                let _ = so.read_to_end(&mut v);
            }
            v
        });
        let t_err = std::thread::spawn(move || {
            let mut v = vec![];
            let _ = se.read_to_end(&mut v);
            v
        });
        let start = std::time::Instant::now();
        let mut timed_out = false;
        let status = loop {
            match child.try_wait() {
                Ok(Some(s)) => break Some(s),
                Ok(None) => {
                    if start.elapsed().as_secs() >= timeout_s {
                        timed_out = true;
                        let _ = child.kill();
                        let _ = child.wait();
                        break None;
                    }
                    std::thread::sleep(std::time::Duration::from_micros(300));
                }
                Err(_) => break None,
            }
        };
        // the scratch directory's name (it contains a pid) must not leak into anything compared
        let scrub = |v: Vec<u8>| -> Vec<u8> {
            let needle = self.scratch.path().as_os_str().as_encoded_bytes();
            if needle.is_empty() || !v.windows(needle.len()).any(|w| w == needle) {
                return v;
            }
            let mut out = Vec::with_capacity(v.len());
            let mut i = 0;
            while i < v.len() {
                if v[i..].starts_with(needle) {
                    out.extend_from_slice(b"<scratch>");
                    i += needle.len();
                } else {
                    out.push(v[i]);
                    i += 1;
                }
            }
            out
        };
        let piped = t_out.join().unwrap_or_default();
        let stdout = scrub(match &spec.stdout_file {
            Some(f) => std::fs::read(cwd.join(f)).unwrap_or_default(),
            None => piped,
        });
        let stderr = scrub(t_err.join().unwrap_or_default());
        use std::os::unix::process::ExitStatusExt;
        let code = status.map(|s| s.code().unwrap_or(-(s.signal().unwrap_or(0)))).unwrap_or(-999);
        let mut shim = BTreeMap::new();
        if let Ok(s) = std::fs::read_to_string(&shim_out) {
            for l in s.lines() {
                if let Some((k, v)) = l.split_once('=') {
                    shim.insert(k.to_string(), v.parse().unwrap_or(0));
                }
            }
        }
        let sched = std::fs::read_to_string(&sched_out).ok().map(|s| vsched::parse_outcome_text(&s));
        if std::env::var_os("PROCSIM_TRACE").is_some() {
            TRACE.with(|t| t.borrow_mut().push(format!("args={:?} plan={:?} code={code} stdout={:016x}/{} stderr={} shim={:?} sched={:?}", spec.args, spec.plan, fnv(&mask_times(&stdout)), mask_times(&stdout).len(), show(&stderr), shim, sched.as_ref().map(|s| (s.hash, s.steps)))));
        }
        if std::env::var_os("PROCSIM_DEBUG").is_some() && start.elapsed().as_millis() > 0 {
            eprintln!("SLOW {}ms code={code} timed_out={timed_out} args={:?} plan={:?} sched={:?} stderr={}", start.elapsed().as_millis(), spec.args, spec.plan, spec.sched.as_ref().map(|s| (s.seed, s.strategy.clone())), show(&stderr));
        }
        let _ = std::fs::remove_file(&shim_out);
        let _ = std::fs::remove_file(&sched_out);
        RunOut { stdout, stderr, code, timed_out, shim, sched }
    }
}

pub fn lines(b: &[u8]) -> Vec<&[u8]> {
    let mut v: Vec<&[u8]> = b.split(|&c| c == b'\n').collect();
    if v.last().map_or(false, |l| l.is_empty()) {
        v.pop();
    }
    v
}

pub fn spec_json(spec: &RunSpec) -> Value {
    json!({"args": spec.args, "fault_plan": spec.plan, "schedule": spec.sched.as_ref().map(|s| json!({"seed": s.seed, "strategy": s.strategy, "choices": s.replay})), "env": spec.env, "path_prefix": spec.path_prefix, "stdout_file": spec.stdout_file})
}

pub fn spec_from_json(v: &Value) -> RunSpec {
    RunSpec {
        args: v["args"].as_array().map(|a| a.iter().filter_map(|s| s.as_str().map(String::from)).collect()).unwrap_or_default(),
        plan: v["fault_plan"].as_array().map(|a| a.iter().filter_map(|s| s.as_str().map(String::from)).collect()).unwrap_or_default(),
        sched: if v["schedule"].is_null() {
            None
        } else {
            Some(Sched {
                seed: v["schedule"]["seed"].as_u64().unwrap_or(1),
                strategy: v["schedule"]["strategy"].as_str().unwrap_or("random").into(),
                replay: v["schedule"]["choices"].as_array().map(|a| a.iter().map(|c| c.as_u64().unwrap_or(0) as u8).collect()).unwrap_or_default(),
                strict: false,
            })
        },
        env: v["env"].as_array().map(|a| a.iter().map(|e| (e[0].as_str().unwrap_or("").to_string(), e[1].as_str().unwrap_or("").to_string())).collect()).unwrap_or_default(),
        stdin: None,
        path_prefix: v["path_prefix"].as_str().map(String::from),
        stdout_file: v["stdout_file"].as_str().map(String::from),
    }
}

pub fn gen_sched(rng: &mut Rng) -> Sched {
    let strategy = match rng.below(10) {
        0..=3 => "random".to_string(),
        4..=6 => format!("pct{}", rng.below(5)),
        7..=8 => format!("sticky{}", 8 + rng.below(8)),
        _ => "rr".to_string(),
    };
    Sched { seed: rng.next(), strategy, replay: vec![], strict: false }
}

/// Accumulator shared by the property drivers of this engine.
pub struct Acc {
    pub evals: u64,
    pub distinct: std::collections::BTreeSet<u64>,
    pub faults: Counters,
    pub probes: Counters,
    pub mix: Counters,
    pub violations: Vec<Violation>,
    pub samples: Vec<Value>,
    pub digests: Vec<(u64, u64)>,
    pub sim_ms: u64,
}

impl Acc {
    pub fn new() -> Acc {
        Acc { evals: 0, distinct: Default::default(), faults: Counters::default(), probes: Counters::default(), mix: Counters::default(), violations: vec![], samples: vec![], digests: vec![], sim_ms: 0 }
    }
    pub fn merge(&mut self, o: Acc) {
        self.evals += o.evals;
        self.distinct.extend(o.distinct);
        self.faults.merge(&o.faults);
        self.probes.merge(&o.probes);
        self.mix.merge(&o.mix);
        self.violations.extend(o.violations);
        self.digests.extend(o.digests);
        self.sim_ms += o.sim_ms;
        if self.samples.len() < 4 {
            self.samples.extend(o.samples);
        }
    }
    pub fn violation(&mut self, prop: &str, class: &str, summary: String, sub: u64, replay: Value) {
        if self.violations.iter().filter(|v| v.class == class).count() < 12 {
            self.violations.push(Violation { property: prop.into(), class: class.into(), summary, subseed: sub, replay });
        } else {
            self.faults.inc(&format!("(further violations of class {class})"));
        }
    }
}

/// Replaces wall-clock figures (JSON `"elapsed..."` objects, `--stats` lines
/// mentioning seconds) by a fixed token. The wall clock is not an input of
/// any property; everything else is compared exactly.
pub fn mask_times(out: &[u8]) -> Vec<u8> {
    let mut v = Vec::with_capacity(out.len());
    let mut i = 0;
    while i < out.len() {
        if out[i..].starts_with(b"\"elapsed") {
            // skip to the end of the object value
            if let Some(open) = out[i..].iter().position(|&b| b == b'{') {
                if let Some(close) = out[i + open..].iter().position(|&b| b == b'}') {
                    v.extend_from_slice(b"\"elapsed\":<masked>");
                    i += open + close + 1;
                    continue;
                }
            }
        }
        v.push(out[i]);
        i += 1;
    }
    let mut w = Vec::with_capacity(v.len());
    for l in v.split_inclusive(|&b| b == b'\n') {
        if l.windows(7).any(|x| x == b"seconds") {
            w.extend_from_slice(b"<masked seconds line>\n");
        } else {
            w.extend_from_slice(l);
        }
    }
    w
}

pub fn digest_out(d: u64, o: &RunOut) -> u64 {
    digest_out_opt(d, o, true)
}

/// `with_stdout = false` for runs whose stdout is cut at a byte position
/// inside time-dependent text (JSON output under a stdout byte budget).
pub fn digest_out_opt(d: u64, o: &RunOut, with_stdout: bool) -> u64 {
    let mut d = if with_stdout { fnv_step(d, fnv(&mask_times(&o.stdout))) } else { d };
    d = fnv_step(d, fnv(&o.stderr));
    d = fnv_step(d, o.code as u64);
    // only counters that are a function of the plan and the schedule (the
    // number of files opened after a failed write, or of repeated failed
    // writes, can depend on the unscheduled --files printer thread)
    for k in ["open_err", "opendir_err", "read_err", "read_eintr", "stdout_written"] {
        d = fnv_step(d, fnv(k.as_bytes()) ^ o.fired(k));
    }
    d = fnv_step(d, o.fired("epipe").min(1));
    if let Some(s) = &o.sched {
        d = fnv_step(d, s.hash);
    }
    d
}

/// Command-line flags that must not change what the properties talk about
/// (same flags in a reference run and in the run under test). Drawn
/// swarm-style: each with a small probability.
pub fn gen_harmless_flags(rng: &mut Rng, exclude: &[&str]) -> Vec<String> {
    let pool = ["--line-buffered", "--block-buffered", "--no-ignore", "--hidden", "-i", "-S", "--no-unicode", "--no-ignore-messages", "--one-file-system", "--no-require-git", "-uu", "--no-ignore-parent", "--engine=default", "--dfa-size-limit=10M", "--regex-size-limit=10M", "--no-pcre2-unicode", "--no-config"];
    let mut v: Vec<String> = vec![];
    for f in pool {
        if exclude.contains(&f) {
            continue;
        }
        if rng.chance(1, 12) {
            if f == "--block-buffered" && v.iter().any(|x| x == "--line-buffered") {
                continue;
            }
            v.push(f.to_string());
        }
    }
    v
}
