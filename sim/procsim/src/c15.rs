//! C15 — exit status and error reporting contract, under injected syscall
//! faults (open/opendir/read failures, stdout closed after k bytes) in
//! single- and multi-threaded runs of the real rg binary.

use crate::common::*;
use serde_json::{json, Value};
use simcore::*;
use std::collections::BTreeSet;

#[derive(Clone, Debug)]
pub struct Workload {
    pub corpus: Corpus,
    pub mode: String,
    pub threads: usize,
    pub sched: Option<Sched>,
    /// --no-messages: diagnostics are suppressed, the exit status is not.
    pub no_messages: bool,
    /// --stats (only combined with -q here): no early quit, statistics on stdout.
    pub stats: bool,
    /// Search every file through a (cat-like) preprocessor: results are the
    /// same, but errors travel through another layer.
    pub pre: bool,
    /// Flags that must not affect the contract.
    pub extra_flags: Vec<String>,
}

const MODES: [&str; 12] = ["standard", "count", "files-with-matches", "quiet", "files", "json", "context", "files-without-match", "count-matches", "include-zero", "only-matching", "vimgrep"];

pub fn gen_workload(sub: u64) -> Workload {
    let mut rng = Rng::new(sub);
    let mut corpus = gen_corpus(&mut rng, 8, false);
    if rng.chance(1, 5) {
        corpus.links.push(("dangling.txt".into(), "/nonexistent/target".into()));
    }
    let mode = MODES[rng.below(MODES.len())].to_string();
    let threads = if rng.chance(1, 2) { 1 } else { 2 + rng.below(3) };
    let sched = if threads > 1 { Some(gen_sched(&mut rng)) } else { None };
    let no_messages = rng.chance(1, 4);
    let stats = mode == "quiet" && rng.chance(1, 2);
    let pre = mode != "files" && rng.chance(1, 6);
    let mut extra_flags = vec![];
    for f in ["--line-buffered", "--block-buffered", "--no-ignore", "--hidden", "-i", "--no-unicode", "--no-ignore-messages", "--one-file-system", "-L", "--no-require-git", "-uu"] {
        if rng.chance(1, 10) && !(f == "--block-buffered" && extra_flags.iter().any(|x: &String| x == "--line-buffered")) {
            extra_flags.push(f.to_string());
        }
    }
    if !corpus.links.is_empty() {
        extra_flags.retain(|f| f != "-L"); // the dangling link has its own leg
    }
    Workload { corpus, mode, threads, sched, no_messages, stats, pre, extra_flags }
}

fn base_args(w: &Workload) -> Vec<String> {
    let mut a: Vec<String> = vec!["--no-config".into(), "--color=never".into(), "--no-messages".into()];
    a.pop();
    if w.no_messages {
        a.push("--no-messages".into());
    }
    a.push(format!("-j{}", w.threads));
    if w.threads == 1 {
        a.push("--sort=path".into());
    }
    match w.mode.as_str() {
        "standard" => a.extend(["-n".into(), "--no-heading".into()]),
        "count" => a.push("-c".into()),
        "files-with-matches" => a.push("-l".into()),
        "quiet" => a.push("-q".into()),
        "files" => a.push("--files".into()),
        "json" => a.push("--json".into()),
        "context" => a.extend(["-n".into(), "--no-heading".into(), "-C1".into()]),
        "files-without-match" => a.push("--files-without-match".into()),
        "count-matches" => a.push("--count-matches".into()),
        "include-zero" => a.extend(["-c".into(), "--include-zero".into()]),
        "only-matching" => a.extend(["-o".into(), "-n".into(), "--no-heading".into()]),
        "vimgrep" => a.push("--vimgrep".into()),
        _ => {}
    }
    if w.stats {
        a.push("--stats".into());
    }
    if w.pre {
        a.extend(["--pre".into(), STUB.into()]);
    }
    a.extend(w.extra_flags.iter().cloned());
    if w.mode != "files" {
        a.push("foo".into());
    }
    a.push("w".into());
    a
}

fn file_matches(c: &[u8]) -> bool {
    c.windows(3).any(|w| w == b"foo")
}

/// Expected exit status from the model: which files match, whether an error
/// is reported, quiet or not. In quiet/-j1 runs files are visited in sorted
/// order and the run stops at the first match, so a fault is only met if it
/// comes first.
fn expected_status(w: &Workload, faulted_open: &BTreeSet<String>, faulted_dirs: &BTreeSet<String>, _dangling: bool) -> Option<i32> {
    let listed = w.mode == "files";
    let quiet = w.mode == "quiet";
    let under_faulted_dir = |p: &str| faulted_dirs.iter().any(|d| p.starts_with(&format!("{d}/")));
    let mut matched = false;
    let mut errored = !faulted_dirs.is_empty();
    for (p, c) in &w.corpus.files {
        if under_faulted_dir(p) {
            continue;
        }
        if listed {
            matched = true;
        } else if faulted_open.contains(p) {
            errored = true;
        } else if file_matches(c) {
            matched = true;
        }
    }
    // -q: the run goes on past errors until a match is found, and a match wins
    // ("or when --quiet found a match"); if nothing matches every fault is met.
    if w.mode == "files-without-match" && !errored {
        return None;
    }
    Some(if matched && (quiet || !errored) {
        0
    } else if errored {
        2
    } else {
        1
    })
}

fn replay_body(sub: u64, w: &Workload, leg: &str, spec: &RunSpec, reference: Option<&RunOut>, got: &RunOut, extra: Value) -> Value {
    json!({"engine": "procsim", "kind": "c15", "subseed_workload": sub, "leg": leg, "mode": w.mode, "threads": w.threads, "corpus": w.corpus.to_json(),
        "run": spec_json(spec), "reference": reference.map(|r| r.to_json()), "observed": got.to_json(), "detail": extra})
}

/// Lines of `out` that belong to `path` in the line-oriented modes.
fn belongs(line: &[u8], path: &str) -> bool {
    let p = format!("w/{path}");
    line.starts_with(p.as_bytes()) && matches!(line.get(p.len()), Some(b':') | Some(b'-') | None)
}

pub fn run_workload(sub: u64, only_leg: Option<&str>, acc: &mut Acc, ctx: &Ctx, thorough: bool) {
    let w = gen_workload(sub);
    let mut rng = Rng::new(sub ^ 0xC15);
    let root = ctx.root();
    w.corpus.materialise(&root);
    let cwd = ctx.scratch.path().to_path_buf();
    let args = base_args(&w);
    let mk = |plan: Vec<String>, extra: &[&str]| RunSpec { args: args.iter().cloned().chain(extra.iter().map(|s| s.to_string())).collect(), plan, sched: w.sched.clone(), ..RunSpec::default() };
    let want = |leg: &str| only_leg.map_or(true, |l| l == leg);
    acc.mix.inc(&format!("mode:{}", w.mode));
    acc.mix.inc(if w.threads == 1 { "single-threaded" } else { "multi-threaded(scheduled)" });
    if w.no_messages {
        acc.mix.inc("--no-messages");
    }
    if w.pre {
        acc.mix.inc("--pre");
    }
    for f in &w.extra_flags {
        acc.mix.inc(&format!("flag:{f}"));
    }
    let line_mode = matches!(w.mode.as_str(), "standard" | "count" | "files-with-matches" | "files" | "files-without-match" | "count-matches" | "include-zero" | "only-matching" | "vimgrep");

    // ---- fault-free reference ------------------------------------------------
    let ref_spec = mk(vec!["read_frag=0".into()], &[]); // plan present => shim loaded, counters available
    let ref_spec = RunSpec { plan: vec!["noop=1".into()], ..ref_spec };
    let reference = ctx.run(&cwd, &ref_spec, 30);
    acc.evals += 1;
    let mut digest = digest_out(sub, &reference);
    if let Some(s) = &reference.sched {
        acc.sim_ms += s.idle_ms;
        if s.preemptions > 0 {
            acc.distinct.insert(s.hash);
        }
    } else {
        acc.distinct.insert(fnv(&mask_times(&reference.stdout)) ^ sub);
    }
    let any_match = w.corpus.files.iter().any(|(_, c)| file_matches(c));
    let exp0 = if w.mode == "files" { 0 } else if any_match { 0 } else { 1 };
    // (--files-without-match: what counts as "a match" for the status is not
    // part of the model; the fault-free status is taken as the reference)
    let exp0 = if w.mode == "files-without-match" { reference.code } else { exp0 };
    if want("fault-free") {
        if reference.timed_out || reference.code != exp0 || !reference.stderr.is_empty() {
            acc.violation("C15", "fault-free-status", format!("no fault injected: exit {} (expected {exp0}), stderr {:?}", reference.code, show(&reference.stderr)), sub, replay_body(sub, &w, "fault-free", &ref_spec, None, &reference, json!(null)));
        }
        if w.mode == "quiet" && !w.stats && !reference.stdout.is_empty() {
            acc.violation("C15", "quiet-printed", "-q printed to stdout".into(), sub, replay_body(sub, &w, "fault-free", &ref_spec, None, &reference, json!(null)));
        }
    }

    // ---- file / directory faults ----------------------------------------------
    let files: Vec<String> = w.corpus.files.iter().map(|(p, _)| p.clone()).collect();
    let dirs: Vec<String> = {
        let mut s = BTreeSet::new();
        for p in &files {
            if let Some(i) = p.rfind('/') {
                s.insert(p[..i].to_string());
            }
        }
        s.into_iter().collect()
    };
    if want("open-fault") && !files.is_empty() {
        let n = if thorough { 3 } else { 2 };
        for _ in 0..n {
            let victim = files[rng.below(files.len())].clone();
            let errno = if rng.chance(1, 2) { 13 } else { 2 };
            let spec = mk(vec![format!("open_err=/w/{victim}:{errno}")], &[]);
            let got = ctx.run(&cwd, &spec, 30);
            acc.evals += 1;
            digest = digest_out(digest, &got);
            let fired = got.fired("open_err");
            acc.faults.add(if errno == 13 { "open-EACCES" } else { "open-ENOENT(file vanished)" }, fired);
            let victim_matches = w.corpus.files.iter().any(|(p, c)| *p == victim && file_matches(c));
            if victim_matches && fired > 0 {
                acc.probes.inc("open-fault-on-a-file-that-would-have-matched");
            }
            if w.mode == "files" {
                // --files never opens: the fault cannot fire, output must be unchanged
                if got.stdout_sorted() != reference.stdout_sorted() || got.code != reference.code {
                    acc.violation("C15", "files-mode-affected-by-open-fault", "an open fault changed --files output".into(), sub, replay_body(sub, &w, "open-fault", &spec, Some(&reference), &got, json!({"victim": victim})));
                }
                continue;
            }
            if fired == 0 {
                continue; // e.g. -q stopped before reaching the victim
            }
            let mut fs = BTreeSet::new();
            fs.insert(victim.clone());
            // diagnostic naming the file
            let names = if w.no_messages { got.stderr.is_empty() } else { String::from_utf8_lossy(&got.stderr).contains(&format!("w/{victim}")) };
            if !names {
                acc.violation("C15", "faulted-file-not-reported", format!("open of w/{victim} failed (errno {errno}) but stderr does not name it: {:?}", show(&got.stderr)), sub, replay_body(sub, &w, "open-fault", &spec, Some(&reference), &got, json!({"victim": victim})));
            }
            if let Some(exp) = expected_status(&w, &fs, &BTreeSet::new(), false) {
                if got.code != exp {
                    acc.violation("C15", "status-with-open-fault", format!("open of w/{victim} failed: exit {} expected {exp}", got.code), sub, replay_body(sub, &w, "open-fault", &spec, Some(&reference), &got, json!({"victim": victim})));
                }
            } else if got.code == 1 && any_match {
                // -q: either the match was found (0) or the error came first and then the match (0), never 1
                acc.violation("C15", "status-with-open-fault", format!("-q with a matching file and a faulted file: exit {}", got.code), sub, replay_body(sub, &w, "open-fault", &spec, Some(&reference), &got, json!({"victim": victim})));
            }
            // other files' results intact
            if line_mode {
                let exp_lines: Vec<&[u8]> = lines(&reference.stdout).into_iter().filter(|l| !belongs(l, &victim)).collect();
                let got_lines = lines(&got.stdout);
                let same = if w.threads == 1 { exp_lines == got_lines } else { sorted(&exp_lines) == sorted(&got_lines) };
                if !same {
                    acc.violation("C15", "other-results-suppressed", format!("open fault on w/{victim}: results of other files changed"), sub, replay_body(sub, &w, "open-fault", &spec, Some(&reference), &got, json!({"victim": victim})));
                }
            }
        }
    }
    if want("opendir-fault") && !dirs.is_empty() {
        let victim = dirs[rng.below(dirs.len())].clone();
        let spec = mk(vec![format!("opendir_err=/w/{victim}:13")], &[]);
        let got = ctx.run(&cwd, &spec, 30);
        acc.evals += 1;
        digest = digest_out(digest, &got);
        let fired = got.fired("opendir_err");
        acc.faults.add("opendir-EACCES", fired);
        if fired > 0 {
            if w.no_messages != got.stderr.is_empty() || (!w.no_messages && !String::from_utf8_lossy(&got.stderr).contains(&format!("w/{victim}"))) {
                acc.violation("C15", "faulted-dir-not-reported", format!("opendir of w/{victim} failed but stderr does not name it: {:?}", show(&got.stderr)), sub, replay_body(sub, &w, "opendir-fault", &spec, Some(&reference), &got, json!({"victim": victim})));
            }
            let mut ds = BTreeSet::new();
            ds.insert(victim.clone());
            if let Some(exp) = expected_status(&w, &BTreeSet::new(), &ds, false) {
                if got.code != exp {
                    acc.violation("C15", "status-with-opendir-fault", format!("opendir of w/{victim} failed: exit {} expected {exp}", got.code), sub, replay_body(sub, &w, "opendir-fault", &spec, Some(&reference), &got, json!({"victim": victim})));
                }
            }
            if line_mode {
                let exp_lines: Vec<&[u8]> = lines(&reference.stdout).into_iter().filter(|l| !l.starts_with(format!("w/{victim}/").as_bytes())).collect();
                let got_lines = lines(&got.stdout);
                let same = if w.threads == 1 { exp_lines == got_lines } else { sorted(&exp_lines) == sorted(&got_lines) };
                if !same {
                    acc.violation("C15", "other-results-suppressed", format!("opendir fault on w/{victim}: results outside it changed"), sub, replay_body(sub, &w, "opendir-fault", &spec, Some(&reference), &got, json!({"victim": victim})));
                }
            }
        }
    }
    if want("read-fault") && !files.is_empty() && w.mode != "files" && w.mode != "quiet" {
        let victim = files[rng.below(files.len())].clone();
        let j = rng.below(3);
        let eintr = rng.chance(1, 3);
        let spec = mk(vec![format!("read_err=/w/{victim}:{j}:{}", if eintr { 4 } else { 5 }), "read_frag=7".into()], &["--no-mmap"]);
        let ref2_spec = mk(vec!["read_frag=7".into()], &["--no-mmap"]);
        let ref2 = ctx.run(&cwd, &ref2_spec, 30);
        let got = ctx.run(&cwd, &spec, 30);
        acc.evals += 2;
        digest = digest_out(digest_out(digest, &ref2), &got);
        acc.faults.add("read-fragmentation", got.fired("read_frag"));
        acc.faults.add("read-EIO", got.fired("read_err"));
        acc.faults.add("read-EINTR", got.fired("read_eintr"));
        // fragmentation alone must change nothing (C02's CLI leg)
        if (w.threads == 1 && mask_times(&ref2.stdout) != mask_times(&reference.stdout)) || ref2.code != reference.code || !ref2.stderr.is_empty() {
            acc.violation("C15", "read-fragmentation-changed-results", "rg --no-mmap under read fragmentation differs from the unfragmented run".into(), sub, replay_body(sub, &w, "read-fault", &ref2_spec, Some(&reference), &ref2, json!(null)));
        }
        if eintr {
            // EINTR is a retry request: nothing observable may change
            if (w.threads == 1 && mask_times(&got.stdout) != mask_times(&ref2.stdout)) || got.code != ref2.code || got.stderr != ref2.stderr {
                acc.violation("C15", "eintr-changed-outcome", format!("EINTR on read {j} of w/{victim}: exit {} stderr {:?}", got.code, show(&got.stderr)), sub, replay_body(sub, &w, "read-fault", &spec, Some(&ref2), &got, json!({"victim": victim, "read_index": j})));
            }
        } else if got.fired("read_err") > 0 {
            if w.no_messages != got.stderr.is_empty() || (!w.no_messages && !String::from_utf8_lossy(&got.stderr).contains(&format!("w/{victim}"))) {
                acc.violation("C15", "faulted-file-not-reported", format!("read {j} of w/{victim} failed with EIO but stderr does not name it: {:?}", show(&got.stderr)), sub, replay_body(sub, &w, "read-fault", &spec, Some(&ref2), &got, json!({"victim": victim, "read_index": j})));
            }
            if got.code != 2 {
                acc.violation("C15", "status-with-read-fault", format!("read error on w/{victim}: exit {} expected 2", got.code), sub, replay_body(sub, &w, "read-fault", &spec, Some(&ref2), &got, json!({"victim": victim, "read_index": j})));
            }
            if line_mode && w.threads == 1 {
                // other files intact; the victim contributes a prefix of its lines
                let exp_other: Vec<&[u8]> = lines(&ref2.stdout).into_iter().filter(|l| !belongs(l, &victim)).collect();
                let got_other: Vec<&[u8]> = lines(&got.stdout).into_iter().filter(|l| !belongs(l, &victim)).collect();
                let exp_v: Vec<&[u8]> = lines(&ref2.stdout).into_iter().filter(|l| belongs(l, &victim)).collect();
                let got_v: Vec<&[u8]> = lines(&got.stdout).into_iter().filter(|l| belongs(l, &victim)).collect();
                if exp_other != got_other || got_v.len() > exp_v.len() || got_v[..] != exp_v[..got_v.len()] {
                    acc.violation("C15", "read-fault-results-not-prefix", format!("read error on w/{victim}: other files changed or the file's lines are not a prefix"), sub, replay_body(sub, &w, "read-fault", &spec, Some(&ref2), &got, json!({"victim": victim, "read_index": j})));
                }
            }
        }
    }

    // ---- stat of an opened file fails (open and reads work): nothing observable changes ----
    if want("fstat-fault") && !files.is_empty() && w.mode != "files" && !w.pre {
        let victim = files[rng.below(files.len())].clone();
        let multiline = rng.chance(1, 2);
        let map = if rng.chance(1, 2) { "--mmap" } else { "--no-mmap" };
        // with -U a pattern that can match a line terminator, so that whole files are read into the searcher's multi-line buffer
        let fargs: Vec<String> = if multiline {
            let mut v: Vec<String> = vec![];
            for a in &args {
                if a == "foo" {
                    v.push("-U".into());
                    v.push(["foo[^z]*?\\n", "foo\\s+\\w"][rng.below(2)].into());
                } else {
                    v.push(a.clone());
                }
            }
            v
        } else {
            args.clone()
        };
        let fmk = |plan: Vec<String>| RunSpec { args: fargs.iter().cloned().chain([map.to_string()]).collect(), plan, sched: w.sched.clone(), ..RunSpec::default() };
        let base_spec = fmk(vec!["noop=1".into()]);
        let spec = fmk(vec![format!("fstat_err=/w/{victim}:{}", [5, 13, 116][rng.below(3)])]);
        let base = ctx.run(&cwd, &base_spec, 30);
        let got = ctx.run(&cwd, &spec, 30);
        acc.evals += 2;
        digest = digest_out(digest_out(digest, &base), &got);
        acc.faults.add("fstat-of-open-file-fails", got.fired("fstat_err"));
        let canon = |o: &RunOut| {
            let m = mask_times(&o.stdout);
            if w.threads == 1 {
                m
            } else {
                let mut v: Vec<Vec<u8>> = lines(&m).into_iter().map(|l| l.to_vec()).collect();
                v.sort();
                v.join(&b"\n"[..])
            }
        };
        if got.fired("fstat_err") > 0 && (canon(&got) != canon(&base) || got.code != base.code || got.stderr != base.stderr) {
            acc.violation("C15", "fstat-fault-changed-outcome", format!("stat of the already opened w/{victim} fails ({map}{}): exit {} (without the fault {}), {} vs {} bytes of stdout, stderr {:?}", if multiline { ", -U" } else { "" }, got.code, base.code, got.stdout.len(), base.stdout.len(), show(&got.stderr)), sub, replay_body(sub, &w, "fstat-fault", &spec, Some(&base), &got, json!({"victim": victim})));
        }
    }

    // ---- the preprocessor of one file fails after writing all of its output ------------
    if want("pre-child-fails") && w.pre && !files.is_empty() && w.mode != "quiet" {
        let victim = files[rng.below(files.len())].clone();
        let base = victim.rsplit('/').next().unwrap().to_string();
        let victims: BTreeSet<String> = files.iter().filter(|f| f.rsplit('/').next().unwrap() == base).cloned().collect();
        let (how, script) = match rng.below(4) {
            0 => ("exit 3, silent", "catself,exit:3"),
            1 => ("SIGKILL, silent", "catself,kill:9"),
            2 => ("exit 1 with a message", "catself,err:200,exit:1"),
            _ => ("SIGSEGV, silent", "catself,kill:11"),
        };
        let spec = RunSpec { env: vec![("CHILDSTUB_SCRIPTS".into(), format!("{base}={script}"))], ..mk(vec!["noop=1".into()], &[]) };
        let got = ctx.run(&cwd, &spec, 30);
        acc.evals += 1;
        digest = digest_out(digest, &got);
        acc.faults.inc(&format!("preprocessor-fails-after-its-output({how})"));
        let detail = json!({"victims": victims, "child": how});
        // a search that stops at the first match abandons the child: not an error
        let early_stop = matches!(w.mode.as_str(), "files-with-matches" | "files-without-match");
        let must_report: Vec<&String> = victims.iter().filter(|v| !early_stop || !w.corpus.files.iter().any(|(p, c)| p == *v && file_matches(c))).collect();
        let err_text = String::from_utf8_lossy(&got.stderr).into_owned();
        for v in &must_report {
            if !w.no_messages && !err_text.contains(&format!("w/{v}")) {
                acc.violation("C15", "failed-preprocessor-not-reported", format!("the preprocessor of w/{v} ended with {how} after its whole output was read, but stderr does not name the file: {:?}", show(&got.stderr)), sub, replay_body(sub, &w, "pre-child-fails", &spec, Some(&reference), &got, detail.clone()));
                break;
            }
        }
        if w.no_messages && !got.stderr.is_empty() {
            acc.violation("C15", "no-messages-not-honoured", format!("--no-messages but stderr is {:?}", show(&got.stderr)), sub, replay_body(sub, &w, "pre-child-fails", &spec, Some(&reference), &got, detail.clone()));
        }
        if !must_report.is_empty() && got.code != 2 {
            acc.violation("C15", "status-with-failed-preprocessor", format!("the preprocessor of w/{victim} ended with {how} after its whole output was read: exit {} expected 2", got.code), sub, replay_body(sub, &w, "pre-child-fails", &spec, Some(&reference), &got, detail.clone()));
        }
        // (when a victim matches in an early-stop mode, whether the child's end of output was
        // seen before the stop depends on where the match lies; C18 owns that question)
        if line_mode {
            let r = mask_times(&reference.stdout);
            let g = mask_times(&got.stdout);
            let exp_other: Vec<&[u8]> = lines(&r).into_iter().filter(|l| !victims.iter().any(|v| belongs(l, v))).collect();
            let got_other: Vec<&[u8]> = lines(&g).into_iter().filter(|l| !victims.iter().any(|v| belongs(l, v))).collect();
            if sorted(&exp_other) != sorted(&got_other) {
                acc.violation("C15", "other-results-suppressed", format!("failing preprocessor for w/{victim}: results of other files changed"), sub, replay_body(sub, &w, "pre-child-fails", &spec, Some(&reference), &got, detail.clone()));
            }
        }
    }

    // ---- timestamp sort: every file is stat()ed by name between listing and opening ----
    if want("timestamp-sort") && !files.is_empty() && !w.stats {
        let key = ["modified", "accessed", "created"][rng.below(3)];
        let flag = if rng.chance(1, 2) { "--sort" } else { "--sortr" };
        let targs: Vec<String> = args.iter().filter(|a| *a != "--sort=path").cloned().chain([format!("{flag}={key}")]).collect();
        let tmk = |plan: Vec<String>| RunSpec { args: targs.clone(), plan, ..RunSpec::default() };
        let masked_sorted = |o: &RunOut| {
            let m = mask_times(&o.stdout);
            let mut v: Vec<Vec<u8>> = lines(&m).into_iter().map(|l| l.to_vec()).collect();
            v.sort();
            v
        };
        let victim = files[rng.below(files.len())].clone();
        let base_spec = tmk(vec!["noop=1".into()]);
        let base = ctx.run(&cwd, &base_spec, 30);
        let stat_spec = tmk(vec![format!("stat_err=/w/{victim}:{}", if rng.chance(1, 2) { 13 } else { 2 })]);
        let got = ctx.run(&cwd, &stat_spec, 30);
        acc.evals += 2;
        acc.mix.inc("timestamp-sort");
        acc.faults.add("stat-by-name-fails(between listing and opening)", got.fired("stat_err"));
        digest = fnv_step(digest, fnv(&masked_sorted(&base).concat()) ^ (base.code as u64) ^ fnv(&masked_sorted(&got).concat()).rotate_left(9) ^ ((got.code as u64) << 8));
        // the sort itself changes only the order
        if masked_sorted(&base) != masked_sorted(&reference) && w.threads == 1 && w.mode != "quiet" {
            acc.violation("C15", "timestamp-sort-changed-results", format!("{flag}={key} printed other lines than --sort=path"), sub, replay_body(sub, &w, "timestamp-sort", &base_spec, Some(&reference), &base, json!(null)));
        }
        if base.code != reference.code || !base.stderr.is_empty() {
            acc.violation("C15", "timestamp-sort-changed-results", format!("{flag}={key}: exit {} (reference {}), stderr {:?}", base.code, reference.code, show(&base.stderr)), sub, replay_body(sub, &w, "timestamp-sort", &base_spec, Some(&reference), &base, json!(null)));
        }
        // a file whose timestamp cannot be had is still searched (it sorts last): same lines, same status, no diagnostic
        if got.fired("stat_err") > 0 {
            let order_free = w.mode != "quiet";
            if (order_free && masked_sorted(&got) != masked_sorted(&base)) || got.code != base.code || !got.stderr.is_empty() {
                acc.violation("C15", "stat-fault-under-timestamp-sort", format!("{flag}={key} with stat of w/{victim} failing (the file itself can be opened): exit {} (without the fault {}), {} lines (without {}), stderr {:?}", got.code, base.code, masked_sorted(&got).len(), masked_sorted(&base).len(), show(&got.stderr)), sub, replay_body(sub, &w, "timestamp-sort", &stat_spec, Some(&base), &got, json!({"victim": victim})));
            }
        }
        // the file vanished: neither stat nor open work -> the usual contract of an unopenable file
        if w.mode != "files" {
            let gone_spec = tmk(vec![format!("stat_err=/w/{victim}:2"), format!("open_err=/w/{victim}:2")]);
            let gone = ctx.run(&cwd, &gone_spec, 30);
            acc.evals += 1;
            digest = fnv_step(digest, fnv(&masked_sorted(&gone).concat()) ^ (gone.code as u64));
            if gone.fired("open_err") > 0 {
                acc.faults.inc("file-vanished-before-stat-and-open");
                let names = if w.no_messages { gone.stderr.is_empty() } else { String::from_utf8_lossy(&gone.stderr).contains(&format!("w/{victim}")) };
                if !names {
                    acc.violation("C15", "faulted-file-not-reported", format!("{flag}={key}: w/{victim} vanished (stat and open fail) but stderr does not name it: {:?}", show(&gone.stderr)), sub, replay_body(sub, &w, "timestamp-sort", &gone_spec, Some(&base), &gone, json!({"victim": victim})));
                }
                let mut fs = BTreeSet::new();
                fs.insert(victim.clone());
                if let Some(exp) = expected_status(&w, &fs, &BTreeSet::new(), false) {
                    if gone.code != exp {
                        acc.violation("C15", "status-with-open-fault", format!("{flag}={key}: w/{victim} vanished: exit {} expected {exp}", gone.code), sub, replay_body(sub, &w, "timestamp-sort", &gone_spec, Some(&base), &gone, json!({"victim": victim})));
                    }
                }
                if line_mode {
                    let b = mask_times(&base.stdout);
                    let g = mask_times(&gone.stdout);
                    let exp_lines: Vec<&[u8]> = lines(&b).into_iter().filter(|l| !belongs(l, &victim)).collect();
                    if sorted(&exp_lines) != sorted(&lines(&g)) {
                        acc.violation("C15", "other-results-suppressed", format!("{flag}={key}: w/{victim} vanished: results of other files changed"), sub, replay_body(sub, &w, "timestamp-sort", &gone_spec, Some(&base), &gone, json!({"victim": victim})));
                    }
                }
            }
        }
    }

    // ---- file truncated between listing and reading --------------------------------
    if want("truncated") && !files.is_empty() && matches!(w.mode.as_str(), "standard" | "count") && w.threads == 1 {
        let victim = files[rng.below(files.len())].clone();
        let j = rng.below(3);
        let spec = mk(vec![format!("read_eof=/w/{victim}:{j}"), "read_frag=5".into()], &["--no-mmap"]);
        let ref2_spec = mk(vec!["read_frag=5".into()], &["--no-mmap"]);
        let ref2 = ctx.run(&cwd, &ref2_spec, 30);
        let got = ctx.run(&cwd, &spec, 30);
        acc.evals += 2;
        digest = digest_out(digest_out(digest, &ref2), &got);
        acc.faults.add("read-EOF-early(file truncated)", got.fired("read_eof").min(1));
        if got.fired("read_eof") > 0 {
            let detail = json!({"victim": victim, "eof_from_read": j});
            if !got.stderr.is_empty() {
                acc.violation("C15", "truncation-reported-as-error", format!("w/{victim} ended early (truncated): stderr {:?}", show(&got.stderr)), sub, replay_body(sub, &w, "truncated", &spec, Some(&ref2), &got, detail.clone()));
            }
            let exp_other: Vec<&[u8]> = lines(&ref2.stdout).into_iter().filter(|l| !belongs(l, &victim)).collect();
            let got_other: Vec<&[u8]> = lines(&got.stdout).into_iter().filter(|l| !belongs(l, &victim)).collect();
            let exp_v: Vec<&[u8]> = lines(&ref2.stdout).into_iter().filter(|l| belongs(l, &victim)).collect();
            let got_v: Vec<&[u8]> = lines(&got.stdout).into_iter().filter(|l| belongs(l, &victim)).collect();
            let victim_ok = if w.mode == "count" {
                let n = |v: &Vec<&[u8]>| v.first().and_then(|l| String::from_utf8_lossy(l).rsplit(':').next().and_then(|x| x.parse::<u64>().ok())).unwrap_or(0);
                n(&got_v) <= n(&exp_v)
            } else {
                // the last delivered line may itself be cut short by the truncation
                got_v.len() <= exp_v.len() && (got_v.is_empty() || got_v[..got_v.len() - 1] == exp_v[..got_v.len() - 1]) && got_v.last().map_or(true, |l| exp_v[got_v.len() - 1].starts_with(l))
            };
            if exp_other != got_other || !victim_ok {
                acc.violation("C15", "truncation-results-not-prefix", format!("w/{victim} truncated at read {j}: other files changed or its results are not a prefix"), sub, replay_body(sub, &w, "truncated", &spec, Some(&ref2), &got, detail.clone()));
            }
            let exp = if got.stdout.is_empty() { 1 } else { 0 };
            if got.code != exp {
                acc.violation("C15", "status-with-truncated-file", format!("w/{victim} truncated: exit {} expected {exp}", got.code), sub, replay_body(sub, &w, "truncated", &spec, Some(&ref2), &got, detail));
            }
        }
    }

    // ---- dangling symlink, followed ---------------------------------------------------
    if want("dangling-follow") && !w.corpus.links.is_empty() && w.mode != "quiet" {
        let spec = mk(vec!["noop=1".into()], &["-L"]);
        let got = ctx.run(&cwd, &spec, 30);
        acc.evals += 1;
        digest = digest_out(digest, &got);
        acc.faults.inc("dangling-symlink-followed");
        let names = if w.no_messages { got.stderr.is_empty() } else { String::from_utf8_lossy(&got.stderr).contains("dangling.txt") };
        if !names || got.code != 2 {
            acc.violation("C15", "dangling-symlink-with-follow", format!("-L with a dangling symlink: exit {} (expected 2), stderr {:?}", got.code, show(&got.stderr)), sub, replay_body(sub, &w, "dangling-follow", &spec, Some(&reference), &got, json!(null)));
        }
        if line_mode {
            let same = if w.threads == 1 { lines(&got.stdout) == lines(&reference.stdout) } else { sorted(&lines(&got.stdout)) == sorted(&lines(&reference.stdout)) };
            if !same {
                acc.violation("C15", "other-results-suppressed", "a dangling symlink (with -L) changed the results of other files".into(), sub, replay_body(sub, &w, "dangling-follow", &spec, Some(&reference), &got, json!(null)));
            }
        }
    }

    // ---- stdout closed after k bytes -------------------------------------------
    if want("epipe") && !reference.stdout.is_empty() {
        // (k is chosen on the time-masked output so that the choice does not
        // depend on how many digits an elapsed time happens to have)
        let masked = mask_times(&reference.stdout);
        let timed = w.mode == "json" || w.stats; // output embeds elapsed times of varying width
        let n = if timed { masked.len().saturating_sub(64).max(1) } else { reference.stdout.len() };
        let mut ks: BTreeSet<usize> = BTreeSet::new();
        if n <= if thorough { 4096 } else { 40 } {
            ks.extend(0..n);
        } else {
            ks.extend(0..if thorough { 256 } else { 4 });
            // block boundaries +-1
            let mut off = 0;
            for l in lines(&masked) {
                off += l.len() + 1;
                if rng.chance(1, if thorough { 1 } else { 12 }) {
                    for d in [off.saturating_sub(1), off, off + 1] {
                        if d < n {
                            ks.insert(d);
                        }
                    }
                }
            }
            for _ in 0..if thorough { 256 } else { 10 } {
                ks.insert(rng.below(n));
            }
        }
        for k in ks {
            let spec = mk(vec![format!("stdout_budget={k}")], &[]);
            let got = ctx.run(&cwd, &spec, 30);
            acc.evals += 1;
            digest = digest_out_opt(digest, &got, !timed);
            acc.faults.add("stdout-EPIPE-after-k-bytes", got.fired("epipe").min(1));
            acc.faults.add("stdout-short-write", got.fired("short_write"));
            if got.fired("epipe") == 0 {
                continue;
            }
            let mid_block = k > 0 && reference.stdout.get(k - 1) != Some(&b'\n');
            if mid_block {
                acc.probes.inc("EPIPE-fired-mid-line");
            }
            let files_par = w.mode == "files" && w.threads > 1;
            let detail = json!({"k": k, "opens_after_epipe": got.fired("opens_after_epipe")});
            let prefix_ok = if files_par || timed {
                // (JSON output embeds elapsed times of varying width: only the length is compared)
                // the printing thread is not scheduled: only timing-independent claims
                got.stdout.len() == k
            } else {
                got.stdout[..] == reference.stdout[..k.min(n)]
            };
            if !prefix_ok {
                acc.violation("C15", "epipe-output-not-prefix", format!("stdout closed after {k} bytes: output is not the first {k} bytes of the uninterrupted output"), sub, replay_body(sub, &w, "epipe", &spec, Some(&reference), &got, detail.clone()));
            }
            if !got.stderr.is_empty() {
                acc.violation("C15", "epipe-diagnostic", format!("stdout closed after {k} bytes: stderr not empty: {:?}", show(&got.stderr)), sub, replay_body(sub, &w, "epipe", &spec, Some(&reference), &got, detail.clone()));
            }
            // Status 0 (graceful end); when the uninterrupted run finds nothing and
            // the failed write was not a per-file result (e.g. only the JSON summary
            // is printed) the status may stay 1 - "nothing matched". What must not
            // happen is a run that would have succeeded ending in a failure status.
            if got.code != 0 && got.code != reference.code {
                let class = if w.threads == 1 && w.mode != "files" { "epipe-status:single-threaded-search" } else if w.threads == 1 { "epipe-status:single-threaded-files" } else { "epipe-status:multi-threaded" };
                acc.violation("C15", class, format!("stdout closed after {k} bytes: exit {} (the uninterrupted run exits {}; a closed pipe must not turn that into a failure)", got.code, reference.code), sub, replay_body(sub, &w, "epipe", &spec, Some(&reference), &got, detail.clone()));
            }
            // Promptness as bounded work. Single-threaded: the loop breaks on
            // the failed write, no further file may be opened. Multi-threaded:
            // the worker that saw the failure still has to set the quit flag and
            // an adversarial schedule may let the others search files that print
            // nothing in the meantime, so only "no file is opened twice / the
            // walk does not restart" is demanded (termination is covered by the
            // hang detector and the timeout).
            let bound = if w.threads == 1 { 0 } else { w.corpus.files.len() as u64 };
            if got.fired("opens_after_epipe") > bound {
                acc.violation("C15", "epipe-not-prompt", format!("stdout closed after {k} bytes: {} more files were opened afterwards (bound {bound}, {} workers)", got.fired("opens_after_epipe"), w.threads), sub, replay_body(sub, &w, "epipe", &spec, Some(&reference), &got, detail.clone()));
            }
            if got.timed_out {
                acc.violation("C15", "epipe-hang", format!("stdout closed after {k} bytes: the run did not end"), sub, replay_body(sub, &w, "epipe", &spec, Some(&reference), &got, detail));
            }
        }
    }

    // ---- a directory that was opened cannot be listed to the end ------------------------
    if want("readdir-fault") && line_mode && w.mode != "files-without-match" {
        let mut cands: Vec<String> = dirs.clone();
        cands.push(String::new()); // the root itself
        let victim = cands[rng.below(cands.len())].clone();
        let k = rng.below(4);
        let suffix = if victim.is_empty() { "/w".to_string() } else { format!("/w/{victim}") };
        let spec = mk(vec![format!("readdir_err={suffix}:{k}:5")], &[]);
        let got = ctx.run(&cwd, &spec, 30);
        acc.evals += 1;
        digest = digest_out(digest, &got);
        acc.faults.add("readdir-EIO-after-k-entries", got.fired("readdir_err"));
        if got.fired("readdir_err") > 0 {
            let detail = json!({"directory": suffix, "failing_readdir_call": k});
            if w.no_messages != got.stderr.is_empty() {
                acc.violation("C15", "readdir-fault-diagnostic", format!("listing {suffix} failed after {k} entries: stderr {:?} (--no-messages: {})", show(&got.stderr), w.no_messages), sub, replay_body(sub, &w, "readdir-fault", &spec, Some(&reference), &got, detail.clone()));
            }
            if got.code != 2 {
                acc.violation("C15", "status-with-readdir-fault", format!("listing {suffix} failed after {k} entries: exit {} expected 2", got.code), sub, replay_body(sub, &w, "readdir-fault", &spec, Some(&reference), &got, detail.clone()));
            }
            // what lies outside the directory is reported as before; of the directory itself a part
            let inside = |l: &[u8]| if victim.is_empty() { true } else { l.starts_with(format!("w/{victim}/").as_bytes()) };
            let r = mask_times(&reference.stdout);
            let g = mask_times(&got.stdout);
            let exp_out: Vec<&[u8]> = lines(&r).into_iter().filter(|l| !inside(l)).collect();
            let got_out: Vec<&[u8]> = lines(&g).into_iter().filter(|l| !inside(l)).collect();
            let mut ref_in = sorted(&lines(&r).into_iter().filter(|l| inside(l)).collect::<Vec<_>>());
            let got_in = sorted(&lines(&g).into_iter().filter(|l| inside(l)).collect::<Vec<_>>());
            let mut subset = true;
            for l in &got_in {
                match ref_in.iter().position(|x| x == l) {
                    Some(i) => {
                        ref_in.remove(i);
                    }
                    None => subset = false,
                }
            }
            if sorted(&exp_out) != sorted(&got_out) || !subset {
                acc.violation("C15", "other-results-suppressed", format!("listing {suffix} failed after {k} entries: results outside it changed, or results inside it are not a part of the fault-free ones"), sub, replay_body(sub, &w, "readdir-fault", &spec, Some(&reference), &got, detail.clone()));
            }
        }
    }

    // ---- short and interrupted writes to stdout: nothing observable changes -------------
    if want("stdout-faults") && !reference.stdout.is_empty() {
        let spec = mk(vec![format!("stdout_frag={}", 1 + rng.below(1000)), format!("stdout_eintr={}", rng.below(4)), format!("stdout_eintr={}", 4 + rng.below(60))], &[]);
        let got = ctx.run(&cwd, &spec, 30);
        acc.evals += 1;
        digest = digest_out(digest, &got);
        acc.faults.add("stdout-short-write(no error)", got.fired("stdout_frag"));
        acc.faults.add("stdout-write-EINTR", got.fired("stdout_eintr"));
        let (g, r) = (mask_times(&got.stdout), mask_times(&reference.stdout));
        let sortl = |b: &[u8]| {
            let mut v: Vec<Vec<u8>> = lines(b).into_iter().map(|l| l.to_vec()).collect();
            v.sort();
            v
        };
        let same = if w.threads == 1 { g == r } else { sortl(&g) == sortl(&r) };
        if !same || got.code != reference.code || got.stderr != reference.stderr {
            acc.violation("C15", "stdout-write-faults-changed-outcome", format!("writes to stdout accepted 1-97 bytes at a time and two were answered EINTR: exit {} (reference {}), {} vs {} bytes of stdout, stderr {:?}", got.code, reference.code, got.stdout.len(), reference.stdout.len(), show(&got.stderr)), sub, replay_body(sub, &w, "stdout-faults", &spec, Some(&reference), &got, json!(null)));
        }
    }

    // ---- closed pipe under arbitrary output-shaping flags -----------------------------
    // Whatever the flags make of the output: when stdout closes after k bytes, exactly the first
    // k bytes of the uninterrupted output were written, nothing goes to stderr, and a run that
    // would have succeeded does not end in a failure status.
    if want("epipe-swarm") && rng.chance(1, 2) {
        let mut sargs: Vec<String> = ["--no-config", "--color=never", "-j1", "--sort=path"].iter().map(|s| s.to_string()).collect();
        for f in ["-o", "-rX", "-b", "--column", "--vimgrep", "-v", "-w", "--max-columns=30", "--max-columns-preview", "--passthru", "--heading", "-c", "--count-matches", "-l", "--files-without-match", "-A2", "-B1", "-C3", "--trim", "--crlf", "-U", "-m1", "-m3", "-N", "-n", "--no-filename", "--context-separator=::", "--include-zero", "--null", "--no-mmap", "--mmap", "--line-buffered", "--block-buffered", "-a"] {
            if rng.chance(1, 8) {
                sargs.push(f.to_string());
            }
        }
        sargs.extend(["foo".into(), "w".into()]);
        let ref_spec = RunSpec { args: sargs.clone(), plan: vec!["noop=1".into()], ..RunSpec::default() };
        let full = ctx.run(&cwd, &ref_spec, 30);
        acc.evals += 1;
        digest = digest_out(digest, &full);
        // flags that only shape the output never change whether something matched
        {
            const SEMANTIC: [&str; 7] = ["-v", "-w", "-U", "--crlf", "-a", "--files-without-match", "--include-zero"];
            let plain_args: Vec<String> = sargs.iter().filter(|a| !a.starts_with('-') || SEMANTIC.contains(&a.as_str()) || matches!(a.as_str(), "--no-config" | "--color=never" | "-j1" | "--sort=path")).cloned().collect();
            if plain_args.len() != sargs.len() && !sargs.iter().any(|a| a == "--files-without-match") {
                let plain = ctx.run(&cwd, &RunSpec { args: plain_args.clone(), plan: vec!["noop=1".into()], ..RunSpec::default() }, 30);
                acc.evals += 1;
                digest = digest_out(digest, &plain);
                if plain.code != full.code {
                    acc.violation("C15", "output-shaping-flags-change-exit-status", format!("rg {:?} exits {}, rg {:?} exits {}", sargs, full.code, plain_args, plain.code), sub, replay_body(sub, &w, "epipe-swarm", &ref_spec, Some(&plain), &full, json!({"flags": sargs})));
                }
            }
        }
        if full.code <= 1 && !full.stdout.is_empty() {
            let n = full.stdout.len();
            let mut ks: BTreeSet<usize> = [0, 1, n / 2, n - 1].into_iter().collect();
            for _ in 0..3 {
                ks.insert(rng.below(n));
            }
            if n > 8200 {
                ks.insert(8191);
                ks.insert(8193);
            }
            for k in ks {
                let spec = RunSpec { args: sargs.clone(), plan: vec![format!("stdout_budget={k}")], ..RunSpec::default() };
                let got = ctx.run(&cwd, &spec, 30);
                acc.evals += 1;
                digest = digest_out(digest, &got);
                acc.faults.add("stdout-EPIPE-after-k-bytes(flag swarm)", got.fired("epipe").min(1));
                if got.fired("epipe") == 0 {
                    continue;
                }
                let detail = json!({"k": k, "flags": sargs});
                if got.stdout[..] != full.stdout[..k] {
                    acc.violation("C15", "epipe-output-not-prefix", format!("rg {:?}: stdout closed after {k} bytes: output is not the first {k} bytes of the uninterrupted output", sargs), sub, replay_body(sub, &w, "epipe-swarm", &spec, Some(&full), &got, detail.clone()));
                }
                if !got.stderr.is_empty() {
                    acc.violation("C15", "epipe-diagnostic", format!("rg {:?}: stdout closed after {k} bytes: stderr not empty: {:?}", sargs, show(&got.stderr)), sub, replay_body(sub, &w, "epipe-swarm", &spec, Some(&full), &got, detail.clone()));
                }
                if got.code != 0 && got.code != full.code {
                    acc.violation("C15", "epipe-status:single-threaded-search", format!("rg {:?}: stdout closed after {k} bytes: exit {} (the uninterrupted run exits {})", sargs, got.code, full.code), sub, replay_body(sub, &w, "epipe-swarm", &spec, Some(&full), &got, detail.clone()));
                }
                if got.fired("opens_after_epipe") > 0 {
                    acc.violation("C15", "epipe-not-prompt", format!("rg {:?}: stdout closed after {k} bytes: {} more files were opened afterwards", sargs, got.fired("opens_after_epipe")), sub, replay_body(sub, &w, "epipe-swarm", &spec, Some(&full), &got, detail.clone()));
                }
            }
        }
    }

    // ---- stdout closed while a talkative preprocessor still has output to deliver ---------
    // (the child survives the closed pipe, complains on stderr and exits 1: the run still ends
    // with status 0, no diagnostic, and exactly the first k bytes)
    if want("epipe-talkative-pre") && rng.chance(1, 6) {
        let big = cwd.join("big");
        let _ = std::fs::remove_dir_all(&big);
        std::fs::create_dir_all(&big).unwrap();
        let mut c = vec![];
        let mut i = 0;
        while c.len() < 200_000 + rng.below(200_000) {
            c.extend_from_slice(format!("line {i} of a large file with foo in every line, padded to some length\n").as_bytes());
            i += 1;
        }
        std::fs::write(big.join("b.txt"), &c).unwrap();
        std::fs::write(big.join("c.txt"), b"foo in a small file\n").unwrap();
        let mode: &[&str] = [&["-n"][..], &["--json"][..], &["-c"][..], &["--heading", "-n"][..]][rng.below(4)];
        let args: Vec<String> = ["--no-config", "--color=never", "-j1", "--sort=path", "--pre", "/verif/target/release/childstub"].iter().chain(mode.iter()).map(|s| s.to_string()).chain(["foo".to_string(), "big".to_string()]).collect();
        let env = vec![("CHILDSTUB_TALKATIVE".to_string(), "1".to_string())];
        let full = ctx.run(&cwd, &RunSpec { args: args.clone(), plan: vec!["noop=1".into()], env: env.clone(), ..RunSpec::default() }, 60);
        acc.evals += 1;
        let timed = mode == ["--json"];
        let n = if timed { mask_times(&full.stdout).len().saturating_sub(400).max(1) } else { full.stdout.len() };
        for k in [0, 1 + rng.below(60), rng.below(n.max(1)), rng.below(n.max(1))] {
            let spec = RunSpec { args: args.clone(), plan: vec![format!("stdout_budget={k}")], env: env.clone(), ..RunSpec::default() };
            let got = ctx.run(&cwd, &spec, 60);
            acc.evals += 1;
            digest = digest_out_opt(digest, &got, !timed);
            if got.fired("epipe") == 0 {
                continue;
            }
            acc.faults.inc("stdout-EPIPE-while-a-talkative-preprocessor-still-writes");
            let prefix_ok = got.stdout.len() == k.min(full.stdout.len()) && (timed || full.stdout.starts_with(&got.stdout));
            if got.code != 0 || !got.stderr.is_empty() || !prefix_ok {
                acc.violation("C15", "epipe-with-talkative-preprocessor", format!("rg {:?}: stdout closed after {k} bytes while the preprocessor still had output to deliver: exit {} stderr {:?} stdout {} bytes", args, got.code, show(&got.stderr), got.stdout.len()), sub, replay_body(sub, &w, "epipe-talkative-pre", &spec, Some(&full), &got, json!({"k": k})));
            }
        }
        let _ = std::fs::remove_dir_all(&big);
    }

    // ---- standard input among the haystacks while a preprocessor (or -z) is configured -------
    // (standard input is searched as it is: no command is run for it, no diagnostic, same status)
    if want("stdin-with-pre") && rng.chance(1, 6) {
        let text = gen_text(&mut rng, 1 + Rng::new(sub ^ 0x51D).below(30), [0, 1, 3][Rng::new(sub ^ 0x51E).below(3)]);
        let how: &[&str] = [&["--pre", "/verif/target/release/childstub"][..], &["-z"][..], &["--pre", "/verif/target/release/childstub", "--pre-glob", "*"][..]][rng.below(3)];
        for paths in [&["-"][..], &["w", "-"][..], &[][..]] {
            let common: Vec<String> = ["--no-config", "--color=never", "-j1", "--sort=path", "-n"].iter().map(|s| s.to_string()).collect();
            let with: Vec<String> = common.iter().cloned().chain(how.iter().map(|s| s.to_string())).chain(["foo".to_string()]).chain(paths.iter().map(|s| s.to_string())).collect();
            let without: Vec<String> = common.iter().cloned().chain(["foo".to_string()]).chain(paths.iter().map(|s| s.to_string())).collect();
            let a = ctx.run(&cwd, &RunSpec { args: with.clone(), plan: vec!["noop=1".into()], stdin: Some(text.clone()), ..RunSpec::default() }, 30);
            let b = ctx.run(&cwd, &RunSpec { args: without.clone(), plan: vec!["noop=1".into()], stdin: Some(text.clone()), ..RunSpec::default() }, 30);
            acc.evals += 2;
            acc.faults.inc("stdin-among-the-haystacks-with-a-preprocessor-configured");
            digest = digest_out(digest_out(digest, &a), &b);
            // (the unscripted stub copies files as they are, so the other haystacks print the same)
            if a.stdout != b.stdout || a.code != b.code || a.stderr != b.stderr {
                acc.violation("C15", "stdin-with-preprocessor", format!("rg {:?} with text on standard input: exit {} stderr {:?} ({} bytes of output); without the preprocessor flags exit {} ({} bytes)", with, a.code, show(&a.stderr), a.stdout.len(), b.code, b.stdout.len()), sub, replay_body(sub, &w, "stdin-with-pre", &RunSpec { args: with.clone(), ..RunSpec::default() }, Some(&b), &a, json!({"stdin": show(&text), "without": without})));
            }
        }
    }

    // ---- flag wiring: a flag followed by its negation is no flag; the last one wins ------
    if want("flag-wiring") && rng.chance(1, 2) {
        // (positive spelling, negation); the negation restores the default
        const PAIRS: [(&[&str], &str); 26] = [
            (&["--binary"], "--no-binary"), (&["-a"], "--no-text"), (&["--text"], "--no-text"), (&["--crlf"], "--no-crlf"), (&["-U"], "--no-multiline"),
            (&["-U", "--multiline-dotall"], "--no-multiline-dotall"), (&["-L"], "--no-follow"), (&["--one-file-system"], "--no-one-file-system"), (&["-z"], "--no-search-zip"),
            (&["--pre", "/verif/target/release/childstub"], "--no-pre"), (&["-E", "latin1"], "--no-encoding"), (&["--encoding=utf-16le"], "--no-encoding"), (&["--hidden"], "--no-hidden"),
            (&["--trim"], "--no-trim"), (&["--column"], "--no-column"), (&["-b"], "--no-byte-offset"), (&["--stats"], "--no-stats"), (&["--json"], "--no-json"),
            (&["-F"], "--no-fixed-strings"), (&["-v"], "--no-invert-match"), (&["-c", "--include-zero"], "--no-include-zero"), (&["--max-columns=20", "--max-columns-preview"], "--no-max-columns-preview"),
            (&["--no-ignore"], "--ignore"), (&["--no-messages"], "--messages"), (&["--mmap"], "--no-mmap"), (&["--line-buffered"], "--no-line-buffered"),
        ];
        let (pos, neg) = PAIRS[rng.below(PAIRS.len())];
        let base: Vec<String> = ["--no-config", "--color=never", "-j1", "--sort=path", "-n"].iter().map(|s| s.to_string()).collect();
        let tail: Vec<String> = vec!["foo".into(), "w".into()];
        // what precedes the pair in `pos` stays in both commands (e.g. -U for --multiline-dotall)
        let (keep, flag) = pos.split_at(pos.len() - if pos[0].starts_with("--pre") || pos[0] == "-E" { 2 } else { 1 });
        let mk2 = |mid: Vec<&str>| -> Vec<String> { base.iter().cloned().chain(keep.iter().map(|s| s.to_string())).chain(mid.iter().map(|s| s.to_string())).chain(tail.iter().cloned()).collect() };
        let cmds = [
            ("flag then negation", mk2(flag.iter().cloned().chain([neg]).collect()), mk2(vec![])),
            ("negation then flag", mk2([neg].into_iter().chain(flag.iter().cloned()).collect()), mk2(flag.to_vec())),
        ];
        for (what, a, b) in cmds {
            let ra = ctx.run(&cwd, &RunSpec { args: a.clone(), plan: vec!["noop=1".into()], ..RunSpec::default() }, 30);
            let rb = ctx.run(&cwd, &RunSpec { args: b.clone(), plan: vec!["noop=1".into()], ..RunSpec::default() }, 30);
            acc.evals += 2;
            acc.faults.inc("flag-wiring-pair");
            digest = digest_out(digest_out(digest, &ra), &rb);
            if mask_times(&ra.stdout) != mask_times(&rb.stdout) || ra.code != rb.code || ra.stderr != rb.stderr {
                acc.violation("C15", "flag-wiring", format!("{what}: rg {:?} (exit {}, {} bytes) differs from rg {:?} (exit {}, {} bytes)", a, ra.code, ra.stdout.len(), b, rb.code, rb.stdout.len()), sub, replay_body(sub, &w, "flag-wiring", &RunSpec { args: a.clone(), ..RunSpec::default() }, Some(&rb), &ra, json!({"equivalent_command": b})));
            }
        }
    }

    // ---- invalid arguments --------------------------------------------------------
    if want("invalid-args") && rng.chance(1, 2) {
        let bad: [(&str, Vec<&str>); 29] = [
            // a pattern that names the NUL byte while binary detection is on (line and multi-line mode)
            ("invalid-regex", vec!["foo\\x00", "w"]),
            ("invalid-regex", vec!["-U", "foo\\x00?", "w"]),
            ("invalid-regex", vec!["-U", "[\\x00]oo", "w"]),
            ("invalid-regex", vec!["-U", "--multiline-dotall", "foo.\\x{0}", "w"]),
            ("invalid-regex", vec!["foo(", "w"]),
            ("invalid-glob", vec!["-g", "{a", "foo", "w"]),
            ("invalid-encoding", vec!["-E", "no-such-encoding", "foo", "w"]),
            ("invalid-type", vec!["-t", "nosuchtype", "foo", "w"]),
            ("invalid-flag", vec!["--no-such-flag", "foo", "w"]),
            // the same kinds of mistakes through other routes and combinations
            ("invalid-regex", vec!["-e", "foo", "-e", "bar(", "w"]),
            ("invalid-regex", vec!["-e", "bar\nbaz", "w"]),
            ("invalid-regex", vec!["-F", "-e", "zzz", "-e", "bar\nbaz", "w"]),
            ("invalid-regex", vec!["-F", "-e", "bar\nbaz", "-e", "zzz", "w"]),
            ("invalid-regex", vec!["--crlf", "-F", "-e", "zzz", "-e", "bar\rbaz", "w"]),
            ("invalid-regex", vec!["-w", "foo)", "w"]),
            ("invalid-glob", vec!["--iglob", "{a", "foo", "w"]),
            ("invalid-glob", vec!["--pre-glob", "{a", "--pre", "cat", "foo", "w"]),
            ("invalid-type", vec!["-T", "nosuchtype", "foo", "w"]),
            ("invalid-type", vec!["--type-add", "broken", "foo", "w"]),
            ("invalid-flag", vec!["--max-count=abc", "foo", "w"]),
            ("invalid-flag", vec!["--sort=bogus", "foo", "w"]),
            ("invalid-flag", vec!["--max-filesize=1Q", "foo", "w"]),
            ("invalid-flag", vec!["--colors=bogus", "foo", "w"]),
            // an invalid value is an error also when the flag it belongs to ends up unused
            ("invalid-glob", vec!["--pre-glob", "{a", "foo", "w"]),
            ("invalid-glob", vec!["--pre", "cat", "--no-pre", "--pre-glob", "[", "foo", "w"]),
            ("invalid-glob", vec!["--pre-glob", "[", "--pre=", "foo", "w"]),
            ("invalid-glob", vec!["--pre", "cat", "--pre-glob", "[a", "-z", "foo", "w"]),
            ("invalid-encoding", vec!["-E", "no-such-encoding", "--no-encoding", "foo", "w"]),
            ("invalid-glob", vec!["-g", "{a", "--files", "w"]),
        ];
        let (name, extra) = &bad[rng.below(bad.len())];
        let spec = RunSpec { args: ["--no-config", "--color=never", &format!("-j{}", w.threads)].iter().map(|s| s.to_string()).chain(extra.iter().map(|s| s.to_string())).collect(), plan: vec!["noop=1".into()], sched: w.sched.clone(), ..RunSpec::default() };
        let got = ctx.run(&cwd, &spec, 30);
        acc.evals += 1;
        acc.faults.inc(name);
        if got.code != 2 || !got.stdout.is_empty() || got.stderr.is_empty() {
            acc.violation("C15", &format!("invalid-argument:{name}"), format!("{name}: exit {} stdout {} bytes stderr {} bytes (expected 2, nothing, a diagnostic)", got.code, got.stdout.len(), got.stderr.len()), sub, replay_body(sub, &w, "invalid-args", &spec, None, &got, json!(null)));
        }
    }
    acc.digests.push((sub, digest));
    if acc.samples.len() < 2 {
        acc.samples.push(json!({"subseed": sub, "mode": w.mode, "threads": w.threads, "files": w.corpus.files.iter().map(|(p, c)| format!("{p} ({} bytes)", c.len())).collect::<Vec<_>>(),
            "argv": args, "fault_free": {"exit": reference.code, "stdout_bytes": reference.stdout.len()},
            "fault_plans": "open_err / opendir_err / read_err (EIO, EINTR) + read_frag / stdout_budget=k for many k / invalid arguments"}));
    }
}

fn sorted<'a>(v: &[&'a [u8]]) -> Vec<&'a [u8]> {
    let mut s = v.to_vec();
    s.sort();
    s
}

trait SortedOut {
    fn stdout_sorted(&self) -> Vec<Vec<u8>>;
}

impl SortedOut for RunOut {
    fn stdout_sorted(&self) -> Vec<Vec<u8>> {
        let mut v: Vec<Vec<u8>> = lines(&self.stdout).into_iter().map(|l| l.to_vec()).collect();
        v.sort();
        v
    }
}

pub fn replay(v: &Value) -> Vec<Violation> {
    let sub = v["subseed_workload"].as_u64().unwrap_or(1);
    let leg = v["leg"].as_str().unwrap_or("");
    let ctx = Ctx::new("c15replay");
    let mut acc = Acc::new();
    run_workload(sub, Some(leg), &mut acc, &ctx, true);
    let class = v["class"].as_str().unwrap_or("");
    acc.violations.into_iter().filter(|x| x.class == class).collect()
}
