//! C17, CLI leg — the real rg binary on UTF-16 files read through syscalls
//! that fragment reads and answer EINTR at every read index, against the
//! same search of the UTF-8 equivalent.

use crate::common::*;
use serde_json::{json, Value};
use simcore::*;

const WORDS: [&str; 9] = ["foo", "bar", "x", "caf\u{e9}", "\u{65e5}\u{672c}", "\u{1F600}", "of", "", "zebra"];

#[derive(Clone, Debug)]
pub struct Workload {
    pub text: String,
    pub be: bool,
    pub bom: bool,
    pub odd_tail: bool,
    pub multiline: bool,
    pub mmap: bool,
    pub pattern: &'static str,
}

pub fn gen_workload(sub: u64) -> Workload {
    let mut rng = Rng::new(sub);
    let nl = if rng.chance(1, 8) { 400 + rng.below(1200) } else { 1 + rng.below(30) };
    let mut text = String::new();
    for _ in 0..nl {
        for w in 0..rng.below(4) {
            if w > 0 {
                text.push(' ');
            }
            text.push_str(WORDS[rng.below(WORDS.len())]);
        }
        text.push('\n');
    }
    if rng.chance(1, 2) {
        text.push_str("foo\nbar"); // a match for the multi-line pattern at the very end
    } else if rng.chance(1, 3) {
        text.pop();
    }
    let multiline = rng.chance(1, 2);
    Workload {
        text,
        be: rng.chance(1, 2),
        bom: rng.chance(2, 3),
        odd_tail: rng.chance(1, 2),
        multiline,
        mmap: rng.chance(1, 4),
        pattern: if multiline { ["foo\\nbar.", "o\\s+b", "(?s)foo.bar"][rng.below(3)] } else { ["foo", "bar.", "caf."][rng.below(3)] },
    }
}

fn encode(w: &Workload) -> Vec<u8> {
    let mut d = vec![];
    if w.bom {
        d.extend_from_slice(if w.be { b"\xFE\xFF" } else { b"\xFF\xFE" });
    }
    for u in w.text.encode_utf16() {
        d.extend_from_slice(&if w.be { u.to_be_bytes() } else { u.to_le_bytes() });
    }
    if w.odd_tail {
        d.push(b'f');
    }
    d
}

fn utf8_equivalent(w: &Workload) -> Vec<u8> {
    let mut s = w.text.clone();
    if w.odd_tail {
        s.push('\u{fffd}');
    }
    s.into_bytes()
}

fn body(sub: u64, w: &Workload, spec: &RunSpec, reference: &RunOut, got: &RunOut) -> Value {
    json!({"engine": "procsim", "kind": "c17", "subseed_workload": sub, "utf16": if w.be { "be" } else { "le" }, "bom": w.bom, "odd_trailing_byte": w.odd_tail, "multiline": w.multiline, "mmap": w.mmap,
        "pattern": w.pattern, "text_head": show(&w.text.as_bytes()[..w.text.len().min(200)]), "run": spec_json(spec), "reference_on_utf8_equivalent": reference.to_json(), "observed": got.to_json()})
}

pub fn run_workload(sub: u64, only_plan: Option<&str>, acc: &mut Acc, ctx: &Ctx, thorough: bool) {
    let w = gen_workload(sub);
    let mut rng = Rng::new(sub ^ 0xC17);
    let scratch = ctx.scratch.path().to_path_buf();
    let enc_dir = scratch.join("enc");
    let ref_dir = scratch.join("ref");
    for d in [&enc_dir, &ref_dir] {
        let _ = std::fs::remove_dir_all(d);
        std::fs::create_dir_all(d.join("w")).unwrap();
    }
    std::fs::write(enc_dir.join("w/doc.txt"), encode(&w)).unwrap();
    std::fs::write(ref_dir.join("w/doc.txt"), utf8_equivalent(&w)).unwrap();
    let mut args: Vec<String> = ["--no-config", "--color=never", "-j1", "-n", "--with-filename", if w.mmap { "--mmap" } else { "--no-mmap" }].iter().map(|s| s.to_string()).collect();
    if w.multiline {
        args.push("-U".into());
    }
    args.extend(gen_harmless_flags(&mut Rng::new(sub ^ 0xF1A6), &["-i", "-S", "--no-unicode"]));
    let mut enc_args = args.clone();
    // the last encoding flag decides; earlier ones (none, another label) leave nothing behind
    let label: String = if w.be { "utf-16be".into() } else { "utf-16le".into() };
    let spell = Rng::new(sub ^ 0xE5C).below(5);
    if !w.bom {
        match spell {
            0 => enc_args.extend(["-E".into(), "none".into(), "-E".into(), label]),
            1 => enc_args.extend(["--encoding=latin1".into(), "--no-encoding".into(), format!("--encoding={label}")]),
            _ => enc_args.extend(["-E".into(), label]),
        }
    } else {
        match spell {
            0 => enc_args.extend(["-E".into(), "none".into(), "-E".into(), "auto".into()]),
            1 => enc_args.extend(["-E".into(), "latin1".into(), "--encoding=auto".into()]),
            2 => enc_args.extend(["--encoding=none".into(), "--no-encoding".into()]),
            _ => {}
        }
    }
    for a in [&mut args, &mut enc_args] {
        a.push(w.pattern.into());
        a.push("w/doc.txt".into());
    }
    let reference = ctx.run(&ref_dir, &RunSpec { args: args.clone(), ..RunSpec::default() }, 60);
    acc.evals += 1;
    acc.mix.inc(&format!("utf-16{}{}{}", if w.be { "be" } else { "le" }, if w.bom { "+bom" } else { "+label" }, if w.odd_tail { "+odd-tail" } else { "" }));
    acc.mix.inc(if w.multiline { "multi-line" } else { "line" });
    // fault plans: none, fragmentation, EINTR at every read index (first the unfragmented handful, then under fragmentation)
    let mut plans: Vec<Vec<String>> = vec![vec!["noop=1".into()], vec!["read_frag=3".into()], vec!["read_frag=9".into()]];
    for j in 0..6 {
        plans.push(vec![format!("read_err=/w/doc.txt:{j}:4")]);
    }
    // stat of the opened file fails: no size hint, no memory map - the bytes still go through the transcoder
    plans.push(vec!["fstat_err=/w/doc.txt:5".into()]);
    plans.push(vec!["fstat_err=/w/doc.txt:13".into(), "read_frag=4".into()]);
    let nfrag = if thorough { 40 } else { 10 };
    for _ in 0..nfrag {
        plans.push(vec![format!("read_err=/w/doc.txt:{}:4", rng.below(60)), format!("read_frag={}", 1 + rng.below(50))]);
    }
    let mut digest = digest_out(sub, &reference);
    let mut nontrivial = false;
    for plan in plans {
        if let Some(p) = only_plan {
            if plan.join(";") != p {
                continue;
            }
        }
        let spec = RunSpec { args: enc_args.clone(), plan: plan.clone(), ..RunSpec::default() };
        let got = ctx.run(&enc_dir, &spec, 60);
        acc.evals += 1;
        digest = digest_out(digest, &got);
        acc.faults.add("read-EINTR", got.fired("read_eintr"));
        acc.faults.add("read-fragmentation", got.fired("read_frag"));
        acc.faults.add("fstat-of-open-file-fails", got.fired("fstat_err"));
        if got.fired("read_eintr") > 0 && !reference.stdout.is_empty() {
            nontrivial = true;
        }
        if got.stdout == reference.stdout && got.code == reference.code && got.stderr.is_empty() {
            continue;
        }
        // The known transcoder defect (known_findings.json): with pending decoder
        // output at end of input and fewer than 4 bytes of room in the caller's
        // buffer, the final U+FFFD loses its last 1-2 bytes. Recognised exactly:
        // rg on the UTF-8 equivalent minus those bytes must give this very output.
        let mut class = format!("cli-differs-from-utf8-equivalent:{}", if w.mmap { "mmap" } else { "read" });
        if w.odd_tail && got.stderr.is_empty() {
            let full = utf8_equivalent(&w);
            for cut in [1usize, 2] {
                std::fs::write(ref_dir.join("w/doc.txt"), &full[..full.len() - cut]).unwrap();
                let alt = ctx.run(&ref_dir, &RunSpec { args: args.clone(), ..RunSpec::default() }, 60);
                if alt.stdout == got.stdout && alt.code == got.code {
                    class = "transcoder-drops-last-bytes-at-eof-with-small-buffer".into();
                }
            }
            std::fs::write(ref_dir.join("w/doc.txt"), &full).unwrap();
        }
        let summary = format!("rg on the UTF-16 file under plan {:?}: exit {} ({} bytes of stdout, stderr {:?}); on the UTF-8 equivalent: exit {} ({} bytes)", plan, got.code, got.stdout.len(), show(&got.stderr), reference.code, reference.stdout.len());
        acc.violation("C17", &class, summary, sub, body(sub, &w, &spec, &reference, &got));
    }
    // Several marked files under several worker threads (each thread searches with its
    // own clone of the searcher) and an explicit label that every mark overrides.
    let tree_plan = vec!["noop=17".to_string()];
    if only_plan.map_or(true, |p| p == tree_plan.join(";")) && w.text.len() < 4000 {
        let t16 = |be: bool| {
            let mut d: Vec<u8> = if be { b"\xFE\xFF".to_vec() } else { b"\xFF\xFE".to_vec() };
            for u in w.text.encode_utf16() {
                d.extend_from_slice(&if be { u.to_be_bytes() } else { u.to_le_bytes() });
            }
            d
        };
        for d in [&enc_dir, &ref_dir] {
            std::fs::create_dir_all(d.join("t")).unwrap();
        }
        let mut utf8_marked = b"\xEF\xBB\xBF".to_vec();
        utf8_marked.extend_from_slice(w.text.as_bytes());
        for (name, data) in [("a.txt", t16(false)), ("b.txt", utf8_marked), ("c.txt", t16(true)), ("d.txt", t16(w.be))] {
            std::fs::write(enc_dir.join("t").join(name), data).unwrap();
            std::fs::write(ref_dir.join("t").join(name), w.text.as_bytes()).unwrap();
        }
        let label = ["utf-16le", "utf-16be", "latin1", "shift_jis", "utf-8", "windows-1252"][rng.below(6)];
        let threads = 2 + rng.below(3);
        let mut targs: Vec<String> = args.iter().filter(|a| *a != "-j1" && *a != "w/doc.txt").cloned().collect();
        let pat = targs.pop().unwrap();
        let mut rargs = targs.clone();
        rargs.extend(["-j1".into(), pat.clone(), "t".into()]);
        targs.extend([format!("-j{threads}"), "-E".into(), label.into(), pat, "t".into()]);
        let tref = ctx.run(&ref_dir, &RunSpec { args: rargs, ..RunSpec::default() }, 60);
        let spec = RunSpec { args: targs, plan: tree_plan.clone(), ..RunSpec::default() };
        let got = ctx.run(&enc_dir, &spec, 60);
        acc.evals += 2;
        acc.mix.inc("marked-files-under-worker-threads-with-conflicting-label");
        let sorted = |o: &RunOut| {
            let mut l: Vec<Vec<u8>> = lines(&o.stdout).into_iter().map(|x| x.to_vec()).collect();
            l.sort();
            l
        };
        let (a, b) = (sorted(&got), sorted(&tref));
        digest = fnv_step(digest, fnv(&a.concat()) ^ got.code as u64);
        if a != b || got.code != tref.code || !got.stderr.is_empty() {
            let summary = format!("4 files with byte-order marks searched with -j{threads} -E {label}: exit {} with {} lines (stderr {:?}); rg on their UTF-8 equivalents: exit {} with {} lines", got.code, a.len(), show(&got.stderr), tref.code, b.len());
            acc.violation("C17", "cli-marked-files-with-conflicting-label-under-threads", summary, sub, body(sub, &w, &spec, &tref, &got));
        }
    }
    if nontrivial {
        acc.distinct.insert(fnv(w.text.as_bytes()) ^ sub);
    }
    acc.digests.push((sub, digest));
    if acc.samples.len() < 1 && nontrivial && w.text.len() < 200 {
        acc.samples.push(json!({"subseed": sub, "leg": "cli", "argv": enc_args, "text": w.text, "utf16": if w.be { "be" } else { "le" }, "bom": w.bom, "odd_trailing_byte": w.odd_tail, "reference_stdout": show(&reference.stdout)}));
    }
}

pub fn replay(v: &Value) -> Vec<Violation> {
    let sub = v["subseed_workload"].as_u64().unwrap_or(1);
    let plan: Vec<String> = v["run"]["fault_plan"].as_array().map(|a| a.iter().filter_map(|s| s.as_str().map(String::from)).collect()).unwrap_or_default();
    let ctx = Ctx::new("c17replay");
    let mut acc = Acc::new();
    run_workload(sub, Some(&plan.join(";")), &mut acc, &ctx, true);
    acc.violations
}
