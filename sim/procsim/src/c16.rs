//! C16, CLI leg — `rg -m N` with context: exactly the first N matching lines
//! plus the trailing context they are entitled to, for every N, under both
//! file strategies and syscall-level read fragmentation.

use crate::common::*;
use serde_json::{json, Value};
use simcore::*;

pub fn run_workload(sub: u64, only_n: Option<u64>, acc: &mut Acc, ctx: &Ctx, _thorough: bool) {
    let mut rng = Rng::new(sub);
    let nl = 1 + rng.below(40);
    let hit = [1, 3, 6][rng.below(3)];
    let text = gen_text(&mut rng, nl, hit);
    let a = rng.below(4);
    let b = rng.below(4);
    let invert = rng.chance(1, 4);
    let mmap = rng.chance(1, 2);
    let frag = !mmap && rng.chance(1, 2);
    // a third route: the text arrives on standard input; and -U (the literal cannot match
    // a line terminator, so the search stays line by line under a multi-line configuration)
    let via_stdin = !mmap && !frag && rng.chance(1, 2);
    let dash_u = rng.chance(1, 4);
    let label: &[u8] = if via_stdin { b"<stdin>" } else { b"w/doc.txt" };
    let scratch = ctx.scratch.path().to_path_buf();
    let root = scratch.join("w");
    let _ = std::fs::remove_dir_all(&root);
    std::fs::create_dir_all(&root).unwrap();
    std::fs::write(root.join("doc.txt"), &text).unwrap();
    // model: which lines are selected, which are delivered without a limit
    let lines_v: Vec<&[u8]> = text.split_inclusive(|&c| c == b'\n').collect();
    let sel: Vec<bool> = lines_v.iter().map(|l| l.windows(3).any(|w| w == b"foo") != invert).collect();
    let delivered: Vec<usize> = (0..lines_v.len())
        .filter(|&i| sel[i] || (1..=a).any(|d| i >= d && sel[i - d] && (i - d + 1..i).all(|j| !sel[j])) || (1..=b).any(|d| i + d < sel.len() && sel[i + d]))
        .collect();
    let matches: Vec<usize> = (0..sel.len()).filter(|&i| sel[i]).collect();
    acc.mix.inc(&format!("A={a},B={b}{}", if invert { ",invert" } else { "" }));
    acc.mix.inc(if via_stdin { "route:stdin" } else if mmap { "route:mmap" } else if frag { "route:fragmented-reads" } else { "route:read" });
    if dash_u {
        acc.mix.inc("-U");
    }
    let mut digest = sub;
    for n in 0..=(matches.len() as u64 + 1) {
        if let Some(x) = only_n {
            if x != n {
                continue;
            }
        }
        let mut args: Vec<String> = ["--no-config", "--color=never", "-j1", "-n", "--no-heading", "--with-filename", if mmap { "--mmap" } else { "--no-mmap" }].iter().map(|s| s.to_string()).collect();
        args.extend([format!("-m{n}"), format!("-A{a}"), format!("-B{b}")]);
        if invert {
            args.push("-v".into());
        }
        args.extend(gen_harmless_flags(&mut Rng::new(sub ^ 0xF1A6), &["-i", "-S"]));
        if dash_u {
            args.push("-U".into());
        }
        args.push("foo".into());
        if !via_stdin {
            args.push("w/doc.txt".into());
        }
        let spec = RunSpec { args, plan: if frag { vec!["read_frag=5".into()] } else { vec!["noop=1".into()] }, stdin: if via_stdin { Some(text.clone()) } else { None }, ..RunSpec::default() };
        let got = ctx.run(&scratch, &spec, 60);
        acc.evals += 1;
        acc.faults.inc("match-limit(-m N)");
        acc.faults.add("read-fragmentation", got.fired("read_frag"));
        digest = digest_out(digest, &got);
        // expected line numbers: everything delivered up to A lines past the N-th selected line
        let expect: Vec<usize> = if n == 0 {
            vec![]
        } else if (n as usize) <= matches.len() {
            let cutoff = matches[n as usize - 1] + a;
            delivered.iter().cloned().filter(|&i| i <= cutoff).collect()
        } else {
            delivered.clone()
        };
        let mut printed: Vec<usize> = vec![];
        for l in lines(&got.stdout) {
            if l == b"--" {
                continue;
            }
            let rest = &l[label.len().min(l.len())..];
            let digits: Vec<u8> = rest.iter().skip(1).cloned().take_while(|c| c.is_ascii_digit()).collect();
            if let Ok(k) = String::from_utf8_lossy(&digits).parse::<usize>() {
                printed.push(k - 1);
            }
        }
        let exp_code = if n > 0 && !matches.is_empty() { 0 } else { 1 };
        if printed != expect || got.code != exp_code || !got.stderr.is_empty() {
            acc.violation(
                "C16",
                "match-limit:cli",
                format!("rg -m{n} -A{a} -B{b}{}: printed lines {:?}, expected {:?} (first N matches plus their trailing context); exit {} expected {exp_code}", if invert { " -v" } else { "" }, printed.iter().map(|i| i + 1).collect::<Vec<_>>(), expect.iter().map(|i| i + 1).collect::<Vec<_>>(), got.code),
                sub,
                json!({"engine": "procsim", "kind": "c16", "subseed_workload": sub, "n": n, "run": spec_json(&spec), "input": show(&text), "observed": got.to_json()}),
            );
        }
    }
    if !matches.is_empty() {
        acc.distinct.insert(fnv(&text) ^ sub);
    }
    acc.digests.push((sub, digest));
    if acc.samples.len() < 1 && matches.len() > 2 {
        acc.samples.push(json!({"subseed": sub, "leg": "cli", "input": show(&text), "A": a, "B": b, "invert": invert, "matching_lines": matches.iter().map(|i| i + 1).collect::<Vec<_>>(), "N_values": format!("0..={}", matches.len() + 1)}));
    }
}

pub fn replay(v: &Value) -> Vec<Violation> {
    let ctx = Ctx::new("c16replay");
    let mut acc = Acc::new();
    run_workload(v["subseed_workload"].as_u64().unwrap_or(1), v["n"].as_u64(), &mut acc, &ctx, true);
    acc.violations
}
