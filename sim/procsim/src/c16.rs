//! C16, CLI leg — `rg -m N` with context: exactly the first N matching lines
//! plus the trailing context they are entitled to, for every N, under both
//! file strategies and syscall-level read fragmentation.

use crate::common::*;
use serde_json::{json, Value};
use simcore::*;

/// A file larger than the 64 KiB buffers with a NUL byte late in a line that does not match:
/// whichever strategy and binary-detection outcome the command line leads to, `-m N` must print
/// exactly the first N lines of what the same command prints without a limit (or all of it).
fn run_big(sub: u64, only_n: Option<u64>, acc: &mut Acc, ctx: &Ctx) {
    let mut rng = Rng::new(sub ^ 0xB16);
    let mut text: Vec<u8> = vec![];
    let target = 70_000 + rng.below(60_000);
    let nul_at_line = rng.chance(2, 3);
    let mut matches_total = 0usize;
    let mut nul_done = false;
    let every = 400 + rng.below(3000);
    let mut since = 0usize;
    while text.len() < target {
        if !nul_done && nul_at_line && text.len() > 66_000 + (sub % 3000) as usize {
            text.extend_from_slice(b"binary \0 data here\n");
            nul_done = true;
            continue;
        }
        if since >= every {
            text.extend_from_slice(b"a line with foo in it\n");
            matches_total += 1;
            since = 0;
        } else {
            let n = 10 + rng.below(60);
            text.extend(std::iter::repeat(b'x').take(n));
            text.push(b'\n');
            since += n + 1;
        }
    }
    let scratch = ctx.scratch.path().to_path_buf();
    let root = scratch.join("w");
    let _ = std::fs::remove_dir_all(&root);
    std::fs::create_dir_all(&root).unwrap();
    std::fs::write(root.join("big.txt"), &text).unwrap();
    let route = ["auto", "auto", "--mmap", "--no-mmap"][rng.below(4)];
    let mk = |n: Option<u64>| {
        let mut a: Vec<String> = ["--no-config", "--color=never", "-j1", "-n"].iter().map(|s| s.to_string()).collect();
        if route != "auto" {
            a.push(route.into());
        }
        if let Some(n) = n {
            a.push(format!("-m{n}"));
        }
        a.extend(["foo".into(), "w/big.txt".into()]);
        RunSpec { args: a, plan: vec!["noop=1".into()], ..RunSpec::default() }
    };
    let full = ctx.run(&scratch, &mk(None), 60);
    acc.evals += 1;
    acc.mix.inc(&format!("big-file-with-late-NUL({route})"));
    let full_lines: Vec<&[u8]> = full.stdout.split_inclusive(|&c| c == b'\n').collect();
    let n_match_lines = full_lines.iter().filter(|l| l.windows(3).any(|w| w == b"foo") && !l.windows(6).any(|w| w == b"binary")).count() as u64;
    let mut digest = digest_out(sub, &full);
    let mut ns = vec![0, 1, n_match_lines / 2, n_match_lines.saturating_sub(1), n_match_lines, n_match_lines + 1, matches_total as u64];
    ns.sort();
    ns.dedup();
    for n in ns {
        if only_n.map_or(false, |x| x != n) {
            continue;
        }
        let spec = mk(Some(n));
        let got = ctx.run(&scratch, &spec, 60);
        acc.evals += 1;
        acc.faults.inc("match-limit(-m N)");
        digest = digest_out(digest, &got);
        let expect: Vec<u8> = if n < n_match_lines { full_lines[..n as usize].concat() } else { full.stdout.clone() };
        let exp_code = if n == 0 { 1 } else { full.code };
        // with exactly as many matches allowed as there are, a trailing notice of the unlimited
        // search may or may not be reached
        let also_ok = n == n_match_lines && got.stdout == full_lines[..(n as usize).min(full_lines.len())].concat();
        if (got.stdout != expect && !also_ok) || got.code != exp_code || got.stderr != full.stderr {
            acc.violation(
                "C16",
                &format!("match-limit:cli-big:{route}"),
                format!("rg -m{n} ({route}) on a {} byte file with a late NUL: {} lines printed, expected the first {} of the {} lines the unlimited search prints; exit {} expected {exp_code}", text.len(), lines(&got.stdout).len(), n.min(full_lines.len() as u64), full_lines.len(), got.code),
                sub,
                json!({"engine": "procsim", "kind": "c16", "subseed_workload": sub, "n": n, "big": true, "run": spec_json(&spec), "unlimited": full.to_json(), "observed": got.to_json()}),
            );
        }
    }
    acc.distinct.insert(fnv(&text) ^ sub);
    acc.digests.push((sub, digest));
}

pub fn run_workload(sub: u64, only_n: Option<u64>, acc: &mut Acc, ctx: &Ctx, _thorough: bool) {
    if sub % 6 == 0 {
        return run_big(sub, only_n, acc, ctx);
    }
    let mut rng = Rng::new(sub);
    let nl = 1 + rng.below(40);
    let hit = [1, 3, 6][rng.below(3)];
    let text = gen_text(&mut rng, nl, hit);
    let a = rng.below(4);
    let b = rng.below(4);
    let invert = rng.chance(1, 4);
    let mmap = rng.chance(1, 2);
    let frag = !mmap && rng.chance(1, 2);
    // a third route: the text arrives on standard input; and -U (the literal cannot match
    // a line terminator, so the search stays line by line under a multi-line configuration)
    let via_stdin = !mmap && !frag && rng.chance(1, 2);
    let dash_u = rng.chance(1, 4);
    let label: &[u8] = if via_stdin { b"<stdin>" } else { b"w/doc.txt" };
    let scratch = ctx.scratch.path().to_path_buf();
    let root = scratch.join("w");
    let _ = std::fs::remove_dir_all(&root);
    std::fs::create_dir_all(&root).unwrap();
    std::fs::write(root.join("doc.txt"), &text).unwrap();
    // model: which lines are selected, which are delivered without a limit
    let lines_v: Vec<&[u8]> = text.split_inclusive(|&c| c == b'\n').collect();
    let sel: Vec<bool> = lines_v.iter().map(|l| l.windows(3).any(|w| w == b"foo") != invert).collect();
    let delivered: Vec<usize> = (0..lines_v.len())
        .filter(|&i| sel[i] || (1..=a).any(|d| i >= d && sel[i - d] && (i - d + 1..i).all(|j| !sel[j])) || (1..=b).any(|d| i + d < sel.len() && sel[i + d]))
        .collect();
    let matches: Vec<usize> = (0..sel.len()).filter(|&i| sel[i]).collect();
    acc.mix.inc(&format!("A={a},B={b}{}", if invert { ",invert" } else { "" }));
    acc.mix.inc(if via_stdin { "route:stdin" } else if mmap { "route:mmap" } else if frag { "route:fragmented-reads" } else { "route:read" });
    if dash_u {
        acc.mix.inc("-U");
    }
    let mut digest = sub;
    for n in 0..=(matches.len() as u64 + 1) {
        if let Some(x) = only_n {
            if x != n {
                continue;
            }
        }
        let mut args: Vec<String> = ["--no-config", "--color=never", "-j1", "-n", "--no-heading", "--with-filename", if mmap { "--mmap" } else { "--no-mmap" }].iter().map(|s| s.to_string()).collect();
        args.extend([format!("-m{n}"), format!("-A{a}"), format!("-B{b}")]);
        if invert {
            args.push("-v".into());
        }
        args.extend(gen_harmless_flags(&mut Rng::new(sub ^ 0xF1A6), &["-i", "-S"]));
        if dash_u {
            args.push("-U".into());
        }
        args.push("foo".into());
        if !via_stdin {
            args.push("w/doc.txt".into());
        }
        let spec = RunSpec { args, plan: if frag { vec!["read_frag=5".into()] } else { vec!["noop=1".into()] }, stdin: if via_stdin { Some(text.clone()) } else { None }, ..RunSpec::default() };
        let got = ctx.run(&scratch, &spec, 60);
        acc.evals += 1;
        acc.faults.inc("match-limit(-m N)");
        acc.faults.add("read-fragmentation", got.fired("read_frag"));
        digest = digest_out(digest, &got);
        // expected line numbers: everything delivered up to A lines past the N-th selected line
        let expect: Vec<usize> = if n == 0 {
            vec![]
        } else if (n as usize) <= matches.len() {
            let cutoff = matches[n as usize - 1] + a;
            delivered.iter().cloned().filter(|&i| i <= cutoff).collect()
        } else {
            delivered.clone()
        };
        let mut printed: Vec<usize> = vec![];
        for l in lines(&got.stdout) {
            if l == b"--" {
                continue;
            }
            let rest = &l[label.len().min(l.len())..];
            let digits: Vec<u8> = rest.iter().skip(1).cloned().take_while(|c| c.is_ascii_digit()).collect();
            if let Ok(k) = String::from_utf8_lossy(&digits).parse::<usize>() {
                printed.push(k - 1);
            }
        }
        let exp_code = if n > 0 && !matches.is_empty() { 0 } else { 1 };
        if printed != expect || got.code != exp_code || !got.stderr.is_empty() {
            acc.violation(
                "C16",
                "match-limit:cli",
                format!("rg -m{n} -A{a} -B{b}{}: printed lines {:?}, expected {:?} (first N matches plus their trailing context); exit {} expected {exp_code}", if invert { " -v" } else { "" }, printed.iter().map(|i| i + 1).collect::<Vec<_>>(), expect.iter().map(|i| i + 1).collect::<Vec<_>>(), got.code),
                sub,
                json!({"engine": "procsim", "kind": "c16", "subseed_workload": sub, "n": n, "run": spec_json(&spec), "input": show(&text), "observed": got.to_json()}),
            );
        }
    }
    // The source fails at read j (every j up to the read that would report the end of the file,
    // with and without fragmentation), line by line and with the whole-file multi-line strategy
    // (a pattern that can match a line terminator and selects the same lines): the error reaches
    // the user (diagnostic, status 2), what is printed is a prefix of the uninterrupted output.
    if only_n.is_none() && !via_stdin && !mmap && sub % 3 == 0 {
        let ml = rng.chance(1, 2);
        let mut args: Vec<String> = ["--no-config", "--color=never", "-j1", "-n", "--no-heading", "--with-filename", "--no-mmap"].iter().map(|s| s.to_string()).collect();
        args.extend([format!("-A{a}"), format!("-B{b}")]);
        if invert && !ml {
            args.push("-v".into());
        }
        if ml {
            args.extend(["-U".into(), "foo[^\\n]*\\n?".into()]);
        } else {
            args.push("foo".into());
        }
        args.push("w/doc.txt".into());
        let base_plan: Vec<String> = if frag { vec!["read_frag=5".into()] } else { vec![] };
        let full = ctx.run(&scratch, &RunSpec { args: args.clone(), plan: if base_plan.is_empty() { vec!["noop=1".into()] } else { base_plan.clone() }, ..RunSpec::default() }, 60);
        acc.evals += 1;
        digest = digest_out(digest, &full);
        for j in 0..12 {
            let mut plan = base_plan.clone();
            plan.push(format!("read_err=/w/doc.txt:{j}:5"));
            let spec = RunSpec { args: args.clone(), plan, ..RunSpec::default() };
            let got = ctx.run(&scratch, &spec, 60);
            acc.evals += 1;
            digest = digest_out(digest, &got);
            if got.fired("read_err") == 0 {
                break; // the file was read to its end in fewer reads
            }
            acc.faults.inc(if ml { "read-EIO-at-read-j(multi-line, whole file)" } else { "read-EIO-at-read-j(line by line)" });
            let prefix = full.stdout.starts_with(&got.stdout) && (got.stdout.is_empty() || got.stdout.ends_with(b"\n"));
            if got.code != 2 || !String::from_utf8_lossy(&got.stderr).contains("w/doc.txt") || !prefix {
                acc.violation(
                    "C16",
                    if ml { "read-error-not-surfaced:cli:multi-line" } else { "read-error-not-surfaced:cli" },
                    format!("read {j} of w/doc.txt failed with EIO: exit {} (expected 2), stderr {:?}, stdout {} bytes {} a prefix of the uninterrupted {} bytes", got.code, show(&got.stderr), got.stdout.len(), if prefix { "is" } else { "IS NOT" }, full.stdout.len()),
                    sub,
                    json!({"engine": "procsim", "kind": "c16", "subseed_workload": sub, "n": null, "read_index": j, "run": spec_json(&spec), "input": show(&text), "uninterrupted": full.to_json(), "observed": got.to_json()}),
                );
            }
        }
    }
    if !matches.is_empty() {
        acc.distinct.insert(fnv(&text) ^ sub);
    }
    acc.digests.push((sub, digest));
    if acc.samples.len() < 1 && matches.len() > 2 {
        acc.samples.push(json!({"subseed": sub, "leg": "cli", "input": show(&text), "A": a, "B": b, "invert": invert, "matching_lines": matches.iter().map(|i| i + 1).collect::<Vec<_>>(), "N_values": format!("0..={}", matches.len() + 1)}));
    }
}

pub fn replay(v: &Value) -> Vec<Violation> {
    let ctx = Ctx::new("c16replay");
    let mut acc = Acc::new();
    run_workload(v["subseed_workload"].as_u64().unwrap_or(1), v["n"].as_u64(), &mut acc, &ctx, true);
    acc.violations
}
