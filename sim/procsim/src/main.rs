//! E3 `procsim` — process-level simulator around the real `rg` binary.
//!
//! Real code: the complete rg executable built from /repo (with the guarded
//! hooks compiled in). Simulated: syscall outcomes (faultshim.so via
//! LD_PRELOAD: stdout closed after k bytes, open/opendir/read failures, EINTR,
//! read fragmentation), thread interleaving of the walker/search/print workers
//! (libvsched.so via LD_PRELOAD, found by the hook with dlsym), and child
//! processes (childstub, a scripted preprocessor / decompressor).

mod c03;
mod c08;
mod c14;
mod c15;
mod c16;
mod c17;
mod c18;
mod common;

use common::*;
use serde_json::json;
use simcore::*;

fn components() -> serde_json::Value {
    json!({
        "real": ["the complete rg binary built from /repo (argument parsing, walker, searcher, printers, exit-status logic)", "the kernel's pipes, tmpfs files and process management", "real gzip/bzip2/xz where a leg uses them"],
        "simulated": ["syscall results on stdout, haystack files and directories (faultshim.so)", "interleaving of rg's worker threads at the hooked yield points (libvsched.so, seeded)", "preprocessor / decompressor child process (childstub, scripted)"]
    })
}

fn drive(opts: &Opts, level: &str, label: &str, workloads: u64, jobs: usize, rule: &str, assumptions: Vec<String>, f: impl Fn(u64, &mut Acc, &Ctx, bool) + Sync) -> i32 {
    let mut rep = Report::new(opts, level, rule);
    let seed = opts.seed;
    let thorough = opts.thorough();
    let deadline = Deadline::new(opts.budget_s());
    let skipped = std::sync::atomic::AtomicU64::new(0);
    let run_range = |jobs: usize, n: u64| -> Acc {
        let accs = par_fold(jobs, n, 1, || (Acc::new(), Ctx::new("procsim")), |i, st: &mut (Acc, Ctx)| {
            if deadline.passed() && i >= 12 {
                skipped.fetch_add(1, std::sync::atomic::Ordering::Relaxed);
                return;
            }
            f(subseed(seed, label, i), &mut st.0, &st.1, thorough);
        });
        let mut total = Acc::new();
        for (a, _c) in accs {
            total.merge(a);
        }
        total
    };
    let total = run_range(jobs, workloads);
    // determinism self-test: the first workloads again, with another degree of driver parallelism
    // (not repeated when violations were found: they are reported as they are, see below)
    let st_n = if total.violations.is_empty() { workloads.min(if thorough { 60 } else { 12 }) } else { 0 };
    let again = run_range((jobs / 3).max(1), st_n);
    let d1: std::collections::BTreeMap<u64, u64> = total.digests.iter().cloned().collect();
    let mism: Vec<u64> = again.digests.iter().filter(|(s, d)| d1.get(s) != Some(d)).map(|(s, _)| *s).collect();
    // (when violations were found they are reported: a broken tree may well behave
    // differently from run to run, and each violation has its own replay file)
    if !mism.is_empty() && total.violations.is_empty() {
        harness_error(&format!("determinism self-test failed: {} of {} re-executed workloads differ (sub-seeds {:?})", mism.len(), again.digests.len(), &mism[..mism.len().min(3)]));
    }
    if opts.property == "C08" && total.distinct.is_empty() {
        harness_error("no run reported a schedule: the scheduler plugin was not active (was rg built with --cfg ripgrep_verif?)");
    }
    rep.evaluations = total.evals + again.evals;
    rep.distinct = total.distinct;
    rep.faults = total.faults;
    rep.probes = total.probes;
    rep.samples = total.samples.into_iter().take(4).collect();
    rep.violations = total.violations;
    rep.sim_ms = total.sim_ms;
    rep.extra.insert("workload_mix".into(), total.mix.to_json());
    rep.extra.insert("workloads".into(), json!(workloads));
    rep.extra.insert("workloads_skipped_by_time_budget".into(), json!(skipped.load(std::sync::atomic::Ordering::Relaxed)));
    rep.extra.insert("determinism_selftest".into(), json!({"workloads_reexecuted": again.digests.len(), "mismatches": mism.len(), "driver_threads": [jobs, (jobs / 3).max(1)]}));
    rep.extra.insert("components".into(), components());
    rep.assumptions = assumptions;
    if let Some(path) = opts.get("merge") {
        // another engine's leg of the same property (written by `iosim --partial`)
        let v = read_json(std::path::Path::new(path));
        rep.evaluations += v["evaluations"].as_u64().unwrap_or(0);
        rep.extra_wall_s = v["wall_s"].as_f64().unwrap_or(0.0);
        for d in v["distinct"].as_array().cloned().unwrap_or_default() {
            rep.distinct.insert(d.as_u64().unwrap_or(0));
        }
        let mut f = Counters::from_json(&v["faults"]);
        f.merge(&rep.faults);
        rep.faults = f;
        let mut pr = Counters::from_json(&v["probes"]);
        pr.merge(&rep.probes);
        rep.probes = pr;
        for s in v["samples"].as_array().cloned().unwrap_or_default().into_iter().take(2) {
            rep.samples.insert(0, s);
        }
        rep.rule = format!("{} || {}", v["rule"].as_str().unwrap_or(""), rep.rule);
        rep.extra.insert("library_leg".into(), v["extra"].clone());
        for x in v["violations"].as_array().cloned().unwrap_or_default() {
            rep.violations.push(Violation { property: opts.property.clone(), class: x["class"].as_str().unwrap_or("?").into(), summary: x["summary"].as_str().unwrap_or("").into(), subseed: x["subseed"].as_u64().unwrap_or(0), replay: x["replay"].clone() });
        }
    }
    rep.finish()
}

fn main() {
    let opts = Opts::parse();
    for p in [RG, SHIM, SCHED, STUB] {
        if !std::path::Path::new(p).exists() {
            harness_error(&format!("{p} is missing (run ./check or ./setup.sh, which build it)"));
        }
    }
    // the binary under test must have been built from the sources as they are now
    // (./check rebuilds it; running this program directly after an edit would not)
    fn newest(dir: &std::path::Path, t: &mut std::time::SystemTime) {
        if let Ok(rd) = std::fs::read_dir(dir) {
            for e in rd.flatten() {
                let p = e.path();
                if p.is_dir() {
                    if p.file_name().map_or(false, |n| n != "target" && n != ".git") {
                        newest(&p, t);
                    }
                } else if p.extension().map_or(false, |x| x == "rs" || x == "toml") {
                    if let Ok(m) = e.metadata().and_then(|m| m.modified()) {
                        if m > *t {
                            *t = m;
                        }
                    }
                }
            }
        }
    }
    let mut src = std::time::UNIX_EPOCH;
    newest(std::path::Path::new("/repo/crates"), &mut src);
    if let Ok(bin) = std::fs::metadata(RG).and_then(|m| m.modified()) {
        if bin < src {
            harness_error(&format!("{RG} is older than the sources under /repo/crates (run ./check, which rebuilds it)"));
        }
    }
    if let Some(p) = &opts.replay {
        let v = read_json(p);
        let prop = v["property"].as_str().unwrap_or(&opts.property).to_string();
        let vs = match v["kind"].as_str().unwrap_or("") {
            "c15" => c15::replay(&v),
            "c08" => c08::replay(&v),
            "c18" => c18::replay(&v),
            "c14" => c14::replay(&v),
            "c17" => c17::replay(&v),
            "c16" => c16::replay(&v),
            "c03" => c03::replay(&prop, &v),
            k => harness_error(&format!("unknown replay kind {k}")),
        };
        match vs.first() {
            Some(x) => {
                println!("VIOLATION property={} replay={}", prop, p.display());
                println!("  class={} {}", x.class, x.summary);
                std::process::exit(1);
            }
            None => {
                println!("replay: property held on this case");
                std::process::exit(0);
            }
        }
    }
    let jobs = opts.jobs;
    if let Some(sub) = opts.get("debug-workload") {
        // run one workload twice and show where the two executions differ
        let sub: u64 = sub.parse().unwrap();
        let mut outs = vec![];
        for _ in 0..2 {
            let ctx = Ctx::new("dbg");
            let mut acc = Acc::new();
            std::env::set_var("PROCSIM_TRACE", "1");
            c15::run_workload(sub, None, &mut acc, &ctx, false);
            outs.push(TRACE.with(|t| std::mem::take(&mut *t.borrow_mut())));
        }
        for (i, (a, b)) in outs[0].iter().zip(outs[1].iter()).enumerate() {
            if a != b {
                println!("run {i} differs:\n A: {a}\n B: {b}");
            }
        }
        println!("compared {} runs", outs[0].len());
        return;
    }
    let code = match opts.property.as_str() {
        "C15" => drive(
            &opts,
            "fault_enumeration",
            "c15",
            opts.cases(600, 5000),
            jobs,
            "one evaluation = one run of the real rg binary on a generated tree (2-9 text files of 0-900 lines in up to 4 directories, optionally a dangling symlink) in one mode (standard, count, files-with-matches, quiet, --files, JSON, context), single-threaded (-j1 --sort path) or multi-threaded under a seeded schedule, with one fault plan: none (reference); open() of a file failing with EACCES or ENOENT; opendir() failing; read() failing with EIO at read index 0-2 or answered EINTR, under read fragmentation; stdout accepting k bytes then EPIPE, for every k when the output is short (<=96 bytes quick, <=4096 thorough) else all small k, line boundaries +-1 and seeded k; invalid regex/glob/encoding/type/flag. Oracle: exit status from the model (matched, errored, quiet), a stderr line naming each faulted path, other files' results byte-identical, read-fault results a prefix, EPIPE => status 0, empty stderr, exactly the first k bytes, at most `workers` files opened afterwards. distinct_nontrivial = distinct schedule traces (multi-threaded workloads with a preemption) plus distinct single-threaded workloads.",
            vec![
                "mode-000 files cannot be used (the sandbox runs as uid 0): EACCES/ENOENT/EIO are injected at the libc boundary instead".into(),
                "under -q only the relation 'a match exists => status is never 1' is asserted (which faults are met depends on traversal order)".into(),
                "--files with several threads prints through an unscheduled printer thread: only timing-independent claims (status 0, empty stderr, exactly k bytes) are asserted there".into(),
            ],
            |sub, acc, ctx, thorough| c15::run_workload(sub, None, acc, ctx, thorough),
        ),
        "C02" | "C03" => {
            let prop = opts.property.clone();
            drive(
                &opts,
                "exploration",
                "c02c03cli",
                opts.cases(3000, 30000),
                jobs,
                "CLI leg: per workload one generated file (0-45 lines, LF or mixed CRLF, with/without final newline) and one seeded flag combination (-A/-B/-C in three spellings, --passthru, -v, -n/-N, --stop-on-nonmatch, --crlf), searched by the real rg via memory map, via read(), via standard input, and via read() under syscall-level fragmentation with EINTR. C02: all routes print identical bytes and exit alike. C03: the bytes equal the rendering of the grep model (line numbers, ':' / '-' markers, '--' separators) and the exit status follows.",
                vec!["literal pattern foo; the CLI leg checks the wiring of command-line flags to the searcher and printer in addition to the library leg".into()],
                move |sub, acc, ctx, thorough| c03::run_workload(&prop, sub, acc, ctx, thorough),
            )
        }
        "C08" => drive(
            &opts,
            "exploration",
            "c08",
            opts.cases(1800, 14000),
            jobs,
            "one evaluation = one run of the real rg binary. Per workload (tree of 2-25 text files from empty to ~200 KiB in nested directories, pattern foo, one of the modes heading / no-heading / context+heading / count / files-with-matches / files-without-match / JSON / --files / quiet / --sort path, 2-16 threads, in 1 of 5 workloads an injected EACCES on one file so that stderr is not empty): one single-threaded reference run, then 5 (quick) / 24 (thorough) runs with -jN whose worker threads are serialised by the preloaded scheduler under a fresh seed and strategy (random, PCT, sticky, round-robin) at every hooked yield point (walker deque/counter/flag operations, before each file's search, before each buffer print). Oracle: stdout parses into per-file blocks (each file contiguous, separators exactly between blocks) that are a permutation of the reference's blocks, byte-identical (JSON/--stats elapsed times masked); exit status equal; stderr equal as a multiset of lines; --sort path: byte-identical. distinct_nontrivial = distinct schedule traces with at least one preemption.",
            vec![
                "sequential consistency (workers serialised by the baton scheduler)".into(),
                "the printer thread of --files -jN is not a hooked worker; its output order is the deterministic send order".into(),
                "timing perturbation by a slow preprocessor is replaced by direct control of the interleaving".into(),
            ],
            |sub, acc, ctx, thorough| c08::run_workload(sub, None, acc, ctx, thorough),
        ),
        "C14" => drive(
            &opts,
            "exploration",
            "c14",
            opts.cases(8000, 80000),
            jobs,
            "CLI leg: one evaluation = one run of the real rg binary (-j1 --sort path, pattern foo) over a generated tree whose files carry 1-2 NUL bytes at planned places (first byte, last byte, inside / just after a matching line, around 64 KiB, late, anywhere; some files stay text), named explicitly or reached by traversal, with default / --binary / --text, --mmap / --no-mmap, optionally under syscall-level read fragmentation, in line, count, list, context and multi-line modes. Oracle: no NUL byte on stdout unless --text; in line mode per file: --text and text files print exactly the model's lines; a NUL-bearing file prints a NUL-free prefix of its matching lines plus at most one notice, which comes last; explicit / --binary: silent only if nothing matches; traversed default: a proper non-empty prefix must be followed by the warning. distinct_nontrivial = distinct (workload, stdout) outcomes with NUL-bearing files plus distinct library-leg cases.",
            vec![
                "the pattern is a literal that neither contains nor spans a NUL, so 'does a line match' is strategy independent".into(),
                "which lines before the NUL are still printed legitimately depends on the strategy and read history (the property allows dropping or cutting off); only prefix-ness, NUL-freeness and the presence/absence of the notice are demanded".into(),
            ],
            |sub, acc, ctx, thorough| c14::run_workload(sub, acc, ctx, thorough),
        ),
        "C16" => drive(
            &opts,
            "fault_enumeration",
            "c16",
            opts.cases(400, 6000),
            jobs,
            "CLI leg: per generated file (1-40 lines) and (A, B, invert, mmap or reads under syscall fragmentation) one run of the real rg -m N -A a -B b for EVERY N in 0..#matches+1; the printed line numbers must be exactly the lines a limit-free search delivers up to A lines past the N-th selected line, with the matching exit status.",
            vec!["literal pattern; the context-window model is the textbook one (a line after a match is after-context, else before-context of a later match)".into()],
            |sub, acc, ctx, thorough| c16::run_workload(sub, None, acc, ctx, thorough),
        ),
        "C17" => drive(
            &opts,
            "exploration",
            "c17",
            opts.cases(1500, 12000),
            jobs,
            "CLI leg: per workload a generated text (1-30 lines, 1 in 8 400-1600 lines; ASCII, BMP, astral) encoded as UTF-16LE/BE with BOM or by -E label, optionally with an odd trailing byte, searched by the real rg (line or -U multi-line pattern, --no-mmap mostly) under syscall fault plans: none, read fragmentation, EINTR at each of the first six read indices, and 10 (quick) / 40 (thorough) seeded (EINTR index < 60, fragmentation seed) pairs. Oracle: stdout, exit status and empty stderr identical to rg on the UTF-8 equivalent at the same path.",
            vec!["the CLI leg covers UTF-16 only (decoded by hand for the reference); other encodings are covered by the library leg".into()],
            |sub, acc, ctx, thorough| c17::run_workload(sub, None, acc, ctx, thorough),
        ),
        "C18" => drive(
            &opts,
            "fault_enumeration",
            "c18",
            opts.cases(3000, 40000),
            jobs,
            "one evaluation = one run of the real rg binary (-j1 --sort path) over 1-5 files that reach it through a scripted child process: --pre <stub>, --pre with --pre-glob selecting a subset, -z with the stub installed first in PATH as gzip/bzip2/xz, -z with the real gzip/bzip2/xz on valid and truncated archives, a missing and a non-executable --pre command. Each file's child has a fate drawn from the seed: clean; noise on stderr with exit 0; 8 MiB stderr flood around its output; exit 1/2/127/255 after all output; the same before any output; SIGABRT after output; or output followed by 1.6 MB of filler so that ripgrep's early stop (-m1, -l, -q) certainly closes the pipe while the child is blocked in write (plain, with stderr noise, or ignoring SIGPIPE and exiting 1). Three runs per workload: a plain rg over a shadow tree holding exactly the bytes each child writes (reference), and the scripted run twice (outcomes must be identical). Oracle: stdout == reference; files whose command could not start or failed after its output was consumed are named on stderr and the status is 2; early-stopped and merely noisy children produce no diagnostic; files not selected by --pre-glob / not compressed are searched directly; the run ends (90 s cap) under stderr floods. distinct_nontrivial = distinct (stdout, stderr) outcomes over workloads.",
            vec![
                "child timing is removed as an input by construction: abandoned output is always followed by filler larger than pipe capacity plus roll buffer, completed output is fully consumed".into(),
                "-j1 --sort path makes the traversal order part of the model (needed to know which files a -q run reaches)".into(),
            ],
            |sub, acc, ctx, thorough| c18::run_workload(sub, acc, ctx, thorough),
        ),
        p => harness_error(&format!("procsim does not serve {p}")),
    };
    std::process::exit(code);
}
