//! C18 — preprocessor (--pre) and decompression (-z) output is what gets
//! searched, failures surface, early stops are not errors, stderr floods do
//! not block. The child process is a scripted stub (or the real gzip / bzip2 /
//! xz); its timing is made a non-input by construction (see DESIGN.md).

use crate::common::*;
use serde_json::{json, Value};
use simcore::*;
use std::path::Path;

#[derive(Clone, Debug, PartialEq)]
pub enum Fate {
    /// Writes its output, exits 0.
    Clean,
    /// Writes noise to stderr, its output, exits 0.
    NoisySuccess,
    /// Floods stderr (4 MiB) before, between and after its output; exits 0.
    StderrFlood,
    /// Writes its whole output, then exits with this code.
    FailAfterOutput(i32),
    /// Exits with this code without writing anything.
    FailBeforeOutput(i32),
    /// Writes its output, then dies from SIGABRT.
    AbortAfterOutput,
    /// Writes its whole output (consumed to EOF by ripgrep), then dies from
    /// this signal - including SIGPIPE (13), which here is NOT the result of
    /// ripgrep closing the pipe early.
    SignalAfterOutput(i32),
    /// Output followed by >= 1.5 MB of filler: ripgrep is expected to stop
    /// reading early (match limit / -l / -q); the child is certainly blocked
    /// in write() when the pipe is closed and dies from SIGPIPE.
    Abandoned { noisy: bool, ignore_sigpipe: bool },
    /// Output with a match, then a NUL byte, then filler: ripgrep's binary
    /// detection (traversed file, default mode) stops reading at the NUL.
    AbandonedByBinary,
}

#[derive(Clone, Debug)]
pub struct FileScript {
    pub path: String,
    /// What the child writes to stdout (before any filler).
    pub output: Vec<u8>,
    pub fate: Fate,
    /// False: not selected by --pre-glob / not a compressed name: searched directly.
    pub through_child: bool,
}

#[derive(Clone, Debug)]
pub struct Workload {
    pub kind: String, // pre | pre-glob | zstub | zreal | pre-missing | pre-notexec
    pub files: Vec<FileScript>,
    pub flags: Vec<String>,
    pub early_stop: bool,
}

fn gen_output(rng: &mut Rng, must_match_early: bool) -> Vec<u8> {
    let mut d = vec![];
    if must_match_early {
        d.extend_from_slice(b"needle foo at the top\n");
    }
    let lines = match rng.below(6) {
        0 => 0,
        1..=3 => 1 + rng.below(20),
        _ => 50 + rng.below(300),
    };
    let hit = if rng.chance(1, 4) { 0 } else { 3 };
    d.extend_from_slice(&gen_text(rng, lines, hit));
    d
}

pub fn gen_workload(sub: u64) -> Workload {
    let mut rng = Rng::new(sub);
    let kind = match rng.below(16) {
        0..=2 => "pre",
        // -z given first, then --pre with a --pre-glob: the later --pre switches -z off, so a
        // compressed-looking name that the glob does not select is searched directly
        3 => "pre-glob-after-z",
        4 => "pre-glob-negated",
        5..=6 => "pre-glob",
        7..=8 => "zstub",
        9 => "zreal",
        10 => "pre-missing",
        11 => "pre-notexec",
        // flag interplay: a --pre-glob without --pre must not disturb -z; of
        // --pre and -z the one given last wins
        12 => "zstub+pre-glob-only",
        13 => "zstub-after-pre",
        // an empty --pre value only switches the preprocessor off, not -z
        14 => "zstub-then-empty-pre",
        _ => "pre-after-z",
    }
    .to_string();
    let early = rng.chance(1, 3) && kind != "zreal";
    // line-oriented modes only: every output line names its file
    let mut flags: Vec<String> = match rng.below(4) {
        0 => vec!["-c".into()],
        // results grouped under a heading per file (compared block by block): a failing command
        // must leave nothing behind that changes how the next file is printed
        1 => vec!["-n".into(), "--heading".into()],
        _ => vec!["-n".into(), "--no-heading".into()],
    };
    if early {
        flags = match rng.below(3) {
            0 => vec!["-n".into(), "--no-heading".into(), "-m1".into()],
            1 => vec!["-l".into()],
            _ => vec!["-q".into()],
        };
    }
    let nf = 1 + rng.below(5);
    let mut files = vec![];
    for i in 0..nf {
        let dir = if rng.chance(1, 3) { "sub/" } else { "" };
        let through_child = match kind.as_str() {
            "pre-glob" | "pre-glob-after-z" | "pre-glob-negated" | "zstub" | "zreal" | "zstub+pre-glob-only" | "zstub-after-pre" | "zstub-then-empty-pre" => rng.chance(2, 3),
            _ => true,
        };
        let ext = match (kind.as_str(), through_child) {
            ("pre-glob", true) | ("pre-glob-after-z", true) | ("pre-glob-negated", true) => "sel",
            ("pre-glob-after-z", false) => ["gz", "bz2", "xz", "txt"][rng.below(4)],
            ("zstub", true) | ("zstub+pre-glob-only", true) | ("zstub-after-pre", true) | ("zstub-then-empty-pre", true) => ["gz", "bz2", "xz"][rng.below(3)],
            ("zreal", true) => {
                // only tools that exist on this machine (gzip is part of the base system)
                let have: Vec<&str> = ["gz", "bz2", "xz", "lz4", "zst", "lzma"].into_iter().filter(|e| std::path::Path::new(real_tool(e).1).exists()).collect();
                if have.is_empty() {
                    "txt"
                } else {
                    have[rng.below(have.len())]
                }
            }
            // a name that the --pre-glob selects only if case is ignored: searched directly
            // (--glob-case-insensitive, which some of these workloads pass, is about -g only)
            ("pre-glob", false) if rng.chance(1, 2) => "SEL",
            _ => "txt",
        };
        let through_child = through_child && !(kind == "zreal" && ext == "txt");
        let fate = if !through_child || kind == "zreal" {
            Fate::Clean
        } else if early {
            match rng.below(6) {
                0 => Fate::Clean,
                1 => Fate::Abandoned { noisy: true, ignore_sigpipe: false },
                2 => Fate::Abandoned { noisy: false, ignore_sigpipe: true },
                _ => Fate::Abandoned { noisy: false, ignore_sigpipe: false },
            }
        } else {
            match rng.below(12) {
                0..=3 => Fate::Clean,
                4 => Fate::NoisySuccess,
                5 => Fate::StderrFlood,
                6 => Fate::FailAfterOutput([1, 2, 127, 255, 141, 13][rng.below(6)]),
                7 => Fate::SignalAfterOutput([13, 15, 9][rng.below(3)]),
                8..=9 => Fate::FailBeforeOutput([1, 2, 127, 255][rng.below(4)]),
                10 => Fate::AbortAfterOutput,
                11 if kind != "zreal" => Fate::AbandonedByBinary,
                _ => Fate::Clean,
            }
        };
        let abandoned = matches!(fate, Fate::Abandoned { .. } | Fate::AbandonedByBinary);
        let mut output = gen_output(&mut rng, abandoned);
        if fate == Fate::AbandonedByBinary {
            // Which lines before a NUL are still reported depends on where the
            // reads fall (C14 allows that), and pipe reads depend on timing. The
            // match is therefore kept more than a pipe capacity plus a roll
            // buffer away from the NUL: it is always searched in an earlier
            // buffer than the one in which the NUL arrives.
            output = b"needle foo at the top\n".to_vec();
            for _ in 0..(5000 + rng.below(2000)) {
                output.extend_from_slice(b"nothing to see on this line, move along\n");
            }
            output.push(0);
            output.extend_from_slice(b"foo after the NUL\n");
        }
        if !abandoned && kind != "zreal" && rng.chance(1, 8) {
            // the command's output is UTF-16 with a byte-order mark: it is transcoded exactly
            // like a file with those bytes
            let mut enc = vec![0xFF, 0xFE];
            for u in String::from_utf8_lossy(&output).encode_utf16() {
                enc.extend_from_slice(&u.to_le_bytes());
            }
            output = enc;
        }
        files.push(FileScript { path: format!("{dir}file{i}.{ext}"), output, fate, through_child });
    }
    Workload { kind, files, flags, early_stop: early }
}

fn script_for(f: &FileScript, shadow: &Path) -> String {
    let sp = shadow.join("w").join(&f.path);
    let sp = sp.display();
    // one child in four closes its standard output as soon as it has written everything and only
    // ends (successfully or not) a little later: its fate is learnt after the end of its output
    let linger = if simcore::fnv(f.path.as_bytes()) % 4 == 0 { ",closeout,sleep:120" } else { "" };
    match &f.fate {
        Fate::Clean if !linger.is_empty() => format!("cat:{sp}{linger}"),
        Fate::FailAfterOutput(c) if !linger.is_empty() => format!("cat:{sp}{linger},exit:{c}"),
        Fate::Clean => format!("cat:{sp}"),
        Fate::NoisySuccess => format!("err:300,cat:{sp},err:100"),
        Fate::StderrFlood => format!("err:4194304,cat:{sp},err:4194304"),
        Fate::FailAfterOutput(c) => format!("cat:{sp},exit:{c}"),
        Fate::FailBeforeOutput(c) => format!("exit:{c}"),
        Fate::AbortAfterOutput => format!("cat:{sp},abort"),
        Fate::SignalAfterOutput(sig) => format!("cat:{sp},kill:{sig}"),
        Fate::AbandonedByBinary => format!("cat:{sp},fill:1600000"),
        Fate::Abandoned { noisy, ignore_sigpipe } => format!("{}{}cat:{sp},fill:1600000,exit:{}", if *ignore_sigpipe { "ignore_sigpipe," } else { "" }, if *noisy { "err:200," } else { "" }, if *ignore_sigpipe { 1 } else { 0 }),
    }
}

fn body(sub: u64, w: &Workload, spec: &RunSpec, shadow: &RunOut, got: &RunOut, detail: Value) -> Value {
    json!({"engine": "procsim", "kind": "c18", "subseed_workload": sub, "workload_kind": w.kind, "flags": w.flags,
        "files": w.files.iter().map(|f| json!({"path": f.path, "through_child": f.through_child, "fate": format!("{:?}", f.fate), "child_stdout_bytes": f.output.len(), "child_stdout_head": show(&f.output[..f.output.len().min(120)])})).collect::<Vec<_>>(),
        "run": spec_json(spec), "shadow_run_on_scripted_bytes": shadow.to_json(), "observed": got.to_json(), "detail": detail})
}

fn real_tool(ext: &str) -> (&'static str, &'static str) {
    match ext {
        "gz" => ("gzip", "/usr/bin/gzip"),
        "bz2" => ("bzip2", "/root/miniconda/bin/bzip2"),
        "lz4" => ("lz4", "/root/miniconda/bin/lz4"),
        "zst" => ("zstd", "/root/miniconda/bin/zstd"),
        _ => ("xz", "/root/miniconda/bin/xz"), // .xz and .lzma
    }
}

/// Extra arguments the real tool needs for this format (before -c / -d -c).
fn real_tool_args(ext: &str) -> &'static [&'static str] {
    match ext {
        "lzma" => &["--format=lzma"],
        "zst" | "lz4" => &["-q"],
        _ => &[],
    }
}

pub fn run_workload(sub: u64, acc: &mut Acc, ctx: &Ctx, _thorough: bool) {
    let w = gen_workload(sub);
    let mut rng = Rng::new(sub ^ 0xC18);
    let scratch = ctx.scratch.path().to_path_buf();
    let root = scratch.join("w");
    let shadow = scratch.join("shadow");
    let _ = std::fs::remove_dir_all(&root);
    let _ = std::fs::remove_dir_all(&shadow);
    acc.mix.inc(&format!("kind:{}", w.kind));
    // shadow tree: exactly the bytes each child will write (or the file itself when searched directly)
    let mut truncated_real: Vec<(String, i32)> = vec![];
    let mut files = w.files.clone();
    for f in files.iter_mut() {
        let sp = shadow.join("w").join(&f.path);
        std::fs::create_dir_all(sp.parent().unwrap()).unwrap();
        let rp = root.join(&f.path);
        std::fs::create_dir_all(rp.parent().unwrap()).unwrap();
        if w.kind == "zreal" && f.through_child && !f.path.ends_with(".txt") {
            // compress with the real tool; sometimes truncate the archive
            let ext = f.path.rsplit('.').next().unwrap().to_string();
            let (_, tool) = real_tool(&ext);
            let plain = scratch.join("plain.tmp");
            std::fs::write(&plain, &f.output).unwrap();
            let out = std::process::Command::new(tool).args(real_tool_args(&ext)).arg("-c").arg(&plain).output().unwrap_or_else(|e| harness_error(&format!("{tool}: {e}")));
            let mut archive = out.stdout;
            if rng.chance(1, 3) && archive.len() > 12 {
                let cut = 8 + rng.below(archive.len() - 8);
                archive.truncate(cut);
                std::fs::write(&rp, &archive).unwrap();
                // what does the real tool produce for the damaged archive?
                let d = std::process::Command::new(tool).args(real_tool_args(&ext)).args(["-d", "-c"]).arg(&rp).output().unwrap();
                f.output = d.stdout;
                let code = d.status.code().unwrap_or(-1);
                if code != 0 {
                    truncated_real.push((f.path.clone(), code));
                    acc.faults.inc("real-decompressor-on-truncated-archive");
                }
            } else {
                std::fs::write(&rp, &archive).unwrap();
                acc.faults.inc("real-decompressor-on-valid-archive");
            }
            std::fs::write(&sp, &f.output).unwrap();
        } else if f.through_child {
            std::fs::write(&sp, &f.output).unwrap();
            // (sometimes the file itself is empty: the command still has to be run for it)
            let original: &[u8] = if rng.chance(1, 4) { b"" } else { b"ORIGINAL BYTES foo foo foo: these must not be searched\n" };
            std::fs::write(&rp, original).unwrap();
        } else {
            std::fs::write(&sp, &f.output).unwrap();
            std::fs::write(&rp, &f.output).unwrap();
        }
    }
    // files the child is expected to produce nothing for
    let base: Vec<String> = ["--no-config", "--color=never", "-j1", "--sort=path"].iter().map(|s| s.to_string()).chain(w.flags.iter().cloned()).collect();
    let mut args = base.clone();
    let mut env: Vec<(String, String)> = vec![];
    let mut path_prefix = None;
    let scripts: Vec<String> = files.iter().filter(|f| f.through_child).map(|f| format!("{}={}", f.path.rsplit('/').next().unwrap(), script_for(f, &shadow))).collect();
    // Sometimes a further, explicitly named path: a symbolic link to a regular file, handled by a
    // command that filters its standard input (rg connects the file to it) instead of opening
    // the path it is given.
    let mut scripts = scripts;
    for d in [scratch.join("x"), shadow.join("x")] {
        let _ = std::fs::remove_dir_all(&d);
    }
    let stdin_link = w.kind == "pre" && sub % 4 == 1;
    if stdin_link {
        std::fs::create_dir_all(scratch.join("x")).unwrap();
        std::fs::create_dir_all(shadow.join("x")).unwrap();
        let mut r2 = Rng::new(sub ^ 0x57D1);
        let n = 1 + r2.below(30);
        let text = gen_text(&mut r2, n, 3);
        std::fs::write(scratch.join("x/real.txt"), &text).unwrap();
        std::os::unix::fs::symlink("real.txt", scratch.join("x/link.txt")).unwrap();
        std::fs::write(shadow.join("x/link.txt"), &text).unwrap();
        scripts.push("link.txt=catstdin".into());
        acc.faults.inc("child:filters-its-standard-input(symlinked file)");
    }
    env.push(("CHILDSTUB_SCRIPTS".into(), scripts.join(";")));
    env.push(("CHILDSTUB_STRICT".into(), "1".into()));
    match w.kind.as_str() {
        "pre" => args.extend(["--pre".into(), STUB.into()]),
        "pre-glob" => {
            args.extend(["--pre".into(), STUB.into(), "--pre-glob".into(), "*.sel".into()]);
            if sub % 3 != 0 {
                args.push("--glob-case-insensitive".into());
            }
        }
        // only negated globs: everything that is not excluded goes through the command
        "pre-glob-negated" => args.extend(["--pre".into(), STUB.into(), "--pre-glob".into(), "!*.txt".into()]),
        "zstub" => {
            let bin = scratch.join("bin");
            let _ = std::fs::create_dir_all(&bin);
            for t in ["gzip", "bzip2", "xz"] {
                let _ = std::fs::remove_file(bin.join(t));
                std::os::unix::fs::symlink(STUB, bin.join(t)).unwrap();
            }
            path_prefix = Some(bin.display().to_string());
            args.push("-z".into());
        }
        "zreal" => {
            path_prefix = Some("/root/miniconda/bin".into());
            args.push("-z".into());
        }
        "zstub+pre-glob-only" | "zstub-after-pre" | "pre-after-z" | "zstub-then-empty-pre" | "pre-glob-after-z" => {
            let bin = scratch.join("bin");
            let _ = std::fs::create_dir_all(&bin);
            for t in ["gzip", "bzip2", "xz"] {
                let _ = std::fs::remove_file(bin.join(t));
                std::os::unix::fs::symlink(STUB, bin.join(t)).unwrap();
            }
            path_prefix = Some(bin.display().to_string());
            match w.kind.as_str() {
                "zstub+pre-glob-only" => args.extend(["-z".into(), "--pre-glob".into(), "*.gz".into()]),
                "pre-glob-after-z" => args.extend(["-z".into(), "--pre".into(), STUB.into(), "--pre-glob".into(), "*.sel".into()]),
                "zstub-after-pre" => args.extend(["--pre".into(), "/nonexistent/never-used".into(), "--pre-glob".into(), "*.gz".into(), "-z".into()]),
                "zstub-then-empty-pre" => {
                    if sub % 2 == 0 {
                        args.extend(["-z".into(), "--pre=".into()]);
                    } else {
                        args.extend(["-z".into(), "--pre".into(), "".into()]);
                    }
                }
                _ => args.extend(["-z".into(), "--pre".into(), STUB.into()]),
            }
        }
        "pre-missing" => args.extend(["--pre".into(), "/nonexistent/preprocessor".into()]),
        "pre-notexec" => {
            let p = scratch.join("notexec");
            std::fs::write(&p, b"not a program").unwrap();
            args.extend(["--pre".into(), p.display().to_string()]);
        }
        _ => {}
    }
    let harmless = gen_harmless_flags(&mut Rng::new(sub ^ 0xF1A6), &["-i", "-S"]);
    args.extend(harmless.iter().cloned());
    args.extend(["foo".into(), "w".into()]);
    if stdin_link {
        args.push("x/link.txt".into());
    }
    // reads on the child's pipes (stdout by rg's main thread, stderr by its drain thread) are
    // sometimes answered EINTR at a seeded index and cut into small pieces: both only ask for a retry
    let mut prng = Rng::new(sub ^ 0x919E);
    let plan: Vec<String> = match prng.below(4) {
        0 => vec![format!("pipe_eintr={}", prng.below(6))],
        1 => vec![format!("pipe_eintr={}", prng.below(4)), format!("pipe_eintr={}", 4 + prng.below(40)), format!("pipe_frag={}", 1 + prng.below(1000))],
        _ => vec![],
    };
    let spec = RunSpec { args, env, path_prefix, plan, ..RunSpec::default() };
    // shadow run: plain rg over exactly the scripted bytes
    let mut sargs = base.clone();
    sargs.extend(gen_harmless_flags(&mut Rng::new(sub ^ 0xF1A6), &["-i", "-S"]));
    sargs.extend(["foo".into(), "w".into()]);
    if stdin_link {
        sargs.push("x/link.txt".into());
    }
    let shadow_spec = RunSpec { args: sargs, ..RunSpec::default() };
    // files that contribute nothing: spawn failures and children that fail before output
    let spawn_fails = w.kind == "pre-missing" || w.kind == "pre-notexec";
    let silent: Vec<&FileScript> = files.iter().filter(|f| f.through_child && (spawn_fails || matches!(f.fate, Fate::FailBeforeOutput(_)))).collect();
    for f in &silent {
        std::fs::write(shadow.join("w").join(&f.path), b"").unwrap();
    }
    let shadow_out = ctx.run(&shadow, &shadow_spec, 60);
    let got = ctx.run(&scratch, &spec, 90);
    // (a run that hung is reported below; it is not repeated)
    let again = if got.timed_out { got.clone() } else { ctx.run(&scratch, &spec, 90) };
    acc.evals += 3;
    let differ = again.stdout != got.stdout || again.code != got.code || sorted(&again.stderr) != sorted(&got.stderr);
    // Under pipe faults the read that is answered EINTR is not the same in both executions
    // (how much a pipe read returns depends on the child's progress), but nothing observable
    // may depend on it: if the two outcomes differ, the one that departs from the reference
    // is judged below.
    let got = if differ && !spec.plan.is_empty() {
        let off = |o: &RunOut| (o.stdout != shadow_out.stdout) as u32 * 4 + (o.code != shadow_out.code) as u32 * 2 + (o.stderr.len() > 0) as u32;
        if off(&again) > off(&got) { again.clone() } else { got }
    } else {
        got
    };
    if differ && spec.plan.is_empty() {
        harness_error(&format!("C18: the same scripted run gave two different outcomes (workload sub-seed {sub}): exit {} vs {}", got.code, again.code));
    }
    acc.digests.push((sub, digest_out(digest_out(sub, &shadow_out), &got)));
    acc.distinct.insert(fnv(&got.stdout) ^ fnv(&got.stderr) ^ sub);
    for f in files.iter().filter(|f| f.through_child) {
        acc.faults.inc(&format!("child:{}", match &f.fate {
            Fate::Clean => "clean".to_string(),
            Fate::NoisySuccess => "stderr-noise-exit-0".into(),
            Fate::StderrFlood => "stderr-flood-8MiB".into(),
            Fate::FailAfterOutput(_) => "exit-nonzero-after-output".into(),
            Fate::FailBeforeOutput(_) => "exit-nonzero-before-output".into(),
            Fate::AbortAfterOutput => "SIGABRT-after-output".into(),
            Fate::SignalAfterOutput(s) => format!("signal-{s}-after-output"),
            Fate::AbandonedByBinary => "abandoned-by-binary-detection".into(),
            Fate::Abandoned { noisy, ignore_sigpipe } => format!("abandoned-by-early-stop{}{}", if *noisy { "+stderr-noise" } else { "" }, if *ignore_sigpipe { "+ignores-SIGPIPE" } else { "" }),
        }));
    }
    acc.faults.add("pipe-read-EINTR", got.fired("pipe_eintr"));
    acc.faults.add("pipe-read-fragmentation", got.fired("pipe_frag"));
    if spawn_fails {
        acc.faults.inc(if w.kind == "pre-missing" { "spawn-failure:command-missing" } else { "spawn-failure:not-executable" });
    }
    let stderr_s = String::from_utf8_lossy(&got.stderr).to_string();
    if got.timed_out {
        acc.violation("C18", "blocked", "the run did not finish within 90 s (child stderr/stdout handling blocks the search)".into(), sub, body(sub, &w, &spec, &shadow_out, &got, json!(null)));
        return;
    }
    // (R) results are those of the scripted bytes
    let quiet = w.flags.iter().any(|f| f == "-q");
    // A file whose command fails contributes a prefix of its results (what was
    // delivered before the failure surfaced; nothing in count mode); all other
    // files contribute exactly the reference lines, in the same order.
    {
        let failing: Vec<&str> = files.iter().filter(|f| f.through_child && matches!(f.fate, Fate::FailAfterOutput(_) | Fate::AbortAfterOutput | Fate::SignalAfterOutput(_))).map(|f| f.path.as_str()).chain(truncated_real.iter().map(|(p, _)| p.as_str())).collect();
        let of = |l: &[u8], p: &str| l.starts_with(format!("w/{p}:").as_bytes()) || l == format!("w/{p}").as_bytes();
        let is_failing = |l: &[u8]| failing.iter().any(|p| of(l, p));
        let exp_other: Vec<&[u8]> = lines(&shadow_out.stdout).into_iter().filter(|l| !is_failing(l)).collect();
        let got_other: Vec<&[u8]> = lines(&got.stdout).into_iter().filter(|l| !is_failing(l)).collect();
        let heading = w.flags.iter().any(|f| f == "--heading");
        let mut ok = heading || exp_other == got_other;
        if heading {
            // blocks: "w/<path>" heading, then its numbered lines; an empty line between blocks
            let parse = |o: &[u8]| -> Option<Vec<(Vec<u8>, Vec<Vec<u8>>)>> {
                let mut v: Vec<(Vec<u8>, Vec<Vec<u8>>)> = vec![];
                let mut fresh = true;
                for l in lines(o) {
                    if l.is_empty() {
                        if fresh {
                            return None;
                        }
                        fresh = true;
                    } else if fresh {
                        if !l.starts_with(b"w/") && !l.starts_with(b"x/") {
                            return None;
                        }
                        v.push((l.to_vec(), vec![]));
                        fresh = false;
                    } else {
                        v.last_mut()?.1.push(l.to_vec());
                    }
                }
                if fresh && !v.is_empty() {
                    return None;
                }
                Some(v)
            };
            match (parse(&shadow_out.stdout), parse(&got.stdout)) {
                (Some(exp), Some(gb)) => {
                    let is_f = |h: &[u8]| failing.iter().any(|p| h == format!("w/{p}").as_bytes());
                    // the blocks of the files whose command does not fail: all there, in order, unchanged
                    let e2: Vec<&(Vec<u8>, Vec<Vec<u8>>)> = exp.iter().filter(|b| !is_f(&b.0)).collect();
                    let g2: Vec<&(Vec<u8>, Vec<Vec<u8>>)> = gb.iter().filter(|b| !is_f(&b.0)).collect();
                    ok = e2 == g2;
                    // a failing one contributes a prefix of its block, at its place
                    for b in gb.iter().filter(|b| is_f(&b.0)) {
                        match exp.iter().find(|e| e.0 == b.0) {
                            Some(e) if b.1.len() <= e.1.len() && b.1[..] == e.1[..b.1.len()] && !b.1.is_empty() => {}
                            _ => ok = false,
                        }
                    }
                    let order = |v: &Vec<(Vec<u8>, Vec<Vec<u8>>)>| v.iter().map(|b| b.0.clone()).collect::<Vec<_>>();
                    let (eo, go) = (order(&exp), order(&gb));
                    if !go.iter().all(|h| eo.contains(h)) || go.windows(2).any(|w| eo.iter().position(|h| h == &w[0]) >= eo.iter().position(|h| h == &w[1])) {
                        ok = false;
                    }
                }
                _ => ok = false,
            }
        }
        for p in failing.iter().filter(|_| !heading) {
            let e: Vec<&[u8]> = lines(&shadow_out.stdout).into_iter().filter(|l| of(l, p)).collect();
            let g: Vec<&[u8]> = lines(&got.stdout).into_iter().filter(|l| of(l, p)).collect();
            if g.len() > e.len() || g[..] != e[..g.len()] {
                ok = false;
            }
        }
        if !ok {
            acc.violation("C18", &format!("results-differ:{}", w.kind), format!("stdout differs from a plain search of the bytes the commands write ({} vs {} bytes)", got.stdout.len(), shadow_out.stdout.len()), sub, body(sub, &w, &spec, &shadow_out, &got, json!({"failing_files": failing})));
        }
    }
    // which files must be reported as errors, which must not
    let mut must_err: Vec<&str> = vec![];
    let mut must_not_err: Vec<&str> = vec![];
    for f in &files {
        if !f.through_child {
            must_not_err.push(&f.path);
            continue;
        }
        if spawn_fails {
            must_err.push(&f.path);
            continue;
        }
        match &f.fate {
            Fate::Clean | Fate::NoisySuccess | Fate::StderrFlood => {
                if w.kind == "zreal" && truncated_real.iter().any(|(p, _)| p == &f.path) {
                    must_err.push(&f.path)
                } else {
                    must_not_err.push(&f.path)
                }
            }
            Fate::FailAfterOutput(_) | Fate::FailBeforeOutput(_) | Fate::AbortAfterOutput | Fate::SignalAfterOutput(_) => must_err.push(&f.path),
            Fate::Abandoned { .. } | Fate::AbandonedByBinary => must_not_err.push(&f.path),
        }
    }
    // with an early stop (-q, -l quit the whole run / stop reading a file), files after the stop are never started
    let reached = |p: &str| -> bool {
        if !quiet {
            return true;
        }
        // -q: the run ends at the first file with a match (sorted order)
        let mut order: Vec<&FileScript> = files.iter().collect();
        order.sort_by(|a, b| a.path.cmp(&b.path));
        for f in order {
            if f.path == p {
                return true;
            }
            let silent_file = silent.iter().any(|s| s.path == f.path);
            if !silent_file && f.output.windows(3).any(|w| w == b"foo") {
                return false;
            }
        }
        true
    };
    let mut errored = false;
    for p in &must_err {
        if !reached(p) {
            continue;
        }
        // an early stop inside the failing file's output makes the failure invisible (and legitimately so)
        let f = files.iter().find(|f| &f.path == p).unwrap();
        let stops_inside = w.early_stop && f.output.windows(3).any(|w| w == b"foo") && !spawn_fails && !matches!(f.fate, Fate::FailBeforeOutput(_));
        if stops_inside {
            continue;
        }
        errored = true;
        if !stderr_s.contains(&format!("w/{p}")) {
            acc.violation("C18", &format!("failure-not-reported:{}", w.kind), format!("the command for w/{p} failed ({:?}) but stderr does not name the file: {:?}", f.fate, show(&got.stderr)), sub, body(sub, &w, &spec, &shadow_out, &got, json!({"file": p})));
        }
    }
    for p in &must_not_err {
        if stderr_s.lines().any(|l| l.contains(&format!("w/{p}"))) {
            let f = files.iter().find(|f| &f.path == p).unwrap();
            let class = match &f.fate {
                Fate::Abandoned { noisy: true, .. } => "early-stop-reported-as-error:child-wrote-to-stderr".to_string(),
                Fate::Abandoned { .. } | Fate::AbandonedByBinary => "early-stop-reported-as-error".to_string(),
                _ => format!("spurious-error:{}", w.kind),
            };
            acc.violation("C18", &class, format!("w/{p} ({:?}) is reported as an error: {:?}", f.fate, show(&got.stderr)), sub, body(sub, &w, &spec, &shadow_out, &got, json!({"file": p})));
        }
    }
    // exit status
    let matched = shadow_out.code == 0;
    let exp = if matched && (quiet || !errored) { 0 } else if errored { 2 } else { 1 };
    if got.code != exp {
        acc.violation("C18", &format!("exit-status:{}", w.kind), format!("exit {} expected {exp} (matched={matched} errored={errored} quiet={quiet})", got.code), sub, body(sub, &w, &spec, &shadow_out, &got, json!(null)));
    }
    if acc.samples.len() < 3 {
        acc.samples.push(json!({"subseed": sub, "kind": w.kind, "flags": w.flags, "files": files.iter().map(|f| format!("{} through_child={} fate={:?} child_stdout={}B", f.path, f.through_child, f.fate, f.output.len())).collect::<Vec<_>>(),
            "exit": got.code, "stderr": show(&got.stderr), "stdout_bytes": got.stdout.len()}));
    }
}

fn sorted(b: &[u8]) -> Vec<Vec<u8>> {
    let mut v: Vec<Vec<u8>> = lines(b).into_iter().map(|l| l.to_vec()).collect();
    v.sort();
    v
}

pub fn replay(v: &Value) -> Vec<Violation> {
    let sub = v["subseed_workload"].as_u64().unwrap_or(1);
    let ctx = Ctx::new("c18replay");
    let mut acc = Acc::new();
    run_workload(sub, &mut acc, &ctx, true);
    let class = v["class"].as_str().unwrap_or("");
    acc.violations.into_iter().filter(|x| x.class == class).collect()
}
