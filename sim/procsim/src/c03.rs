//! CLI legs of C02 and C03 — the real rg on one generated file with a seeded
//! combination of context / inversion / passthru / line-number /
//! stop-on-nonmatch / CRLF flags, reached three ways: memory map, read()
//! calls fragmented (and interrupted) at the syscall boundary, and standard
//! input. C02: the three ways print the same bytes. C03: what is printed is
//! the rendering of the executable grep model.

use crate::common::*;
use serde_json::{json, Value};
use simcore::*;

#[derive(Clone, Debug)]
pub struct W {
    pub text: Vec<u8>,
    pub a: usize,
    pub b: usize,
    pub passthru: bool,
    pub invert: bool,
    pub line_numbers: bool,
    pub stop_nm: bool,
    pub crlf: bool,
    pub ctx_flag_style: usize,
    /// -b: every printed line also carries the byte offset at which it starts.
    pub byte_offset: bool,
    /// --vimgrep: one output line per match, with line and column (only without context,
    /// inversion and passthru).
    pub vimgrep: bool,
    /// --trim: leading ASCII white space of every printed line is dropped.
    pub trim: bool,
    /// --column: a matching line also carries the 1-based column of its first match.
    pub column: bool,
}

pub fn gen(sub: u64) -> W {
    let mut rng = Rng::new(sub);
    let crlf = rng.chance(1, 6);
    let nl = rng.below(45);
    let hit = [1, 3, 7][rng.below(3)];
    let mut text = gen_text(&mut rng, nl, hit);
    if crlf {
        let mut t = vec![];
        for &c in &text {
            if c == b'\n' && rng.chance(4, 5) {
                t.push(b'\r');
            }
            t.push(c);
        }
        text = t;
    }
    if !text.is_empty() && rng.chance(1, 4) {
        text.pop();
    }
    let ctx = rng.chance(2, 3);
    let vimgrep = rng.chance(1, 8);
    if vimgrep {
        // (not with --crlf: the per-match printing path re-terminates every line with the
        // configured terminator, so a bare LF comes out as CR LF there - a matter of presentation
        // that the property does not speak about)
        return W { text, a: 0, b: 0, passthru: false, invert: false, line_numbers: true, stop_nm: false, crlf: false, ctx_flag_style: 0, byte_offset: false, vimgrep: true, trim: false, column: false };
    }
    W {
        text,
        a: if ctx { rng.below(4) } else { 0 },
        b: if ctx { rng.below(4) } else { 0 },
        passthru: rng.chance(1, 8),
        invert: rng.chance(1, 4),
        line_numbers: rng.chance(3, 4),
        stop_nm: rng.chance(1, 8),
        crlf,
        ctx_flag_style: rng.below(7),
        byte_offset: rng.chance(1, 3),
        vimgrep: false,
        // (not with --crlf: flags that need the per-match printing path make it re-terminate
        // every line with CR LF, bare LF included)
        trim: rng.chance(1, 5) && !crlf,
        column: rng.chance(1, 5) && !crlf,
    }
}

fn flags(w: &W) -> Vec<String> {
    let mut f: Vec<String> = vec!["--no-config".into(), "--color=never".into(), "-j1".into(), "--no-heading".into(), "--no-filename".into()];
    f.push(if w.line_numbers { "-n".into() } else { "-N".into() });
    if w.passthru {
        f.push("--passthru".into());
    } else if w.a > 0 || w.b > 0 {
        // the same context request spelled in different ways
        match w.ctx_flag_style {
            0 if w.a == w.b => f.push(format!("-C{}", w.a)),
            1 => f.extend([format!("--after-context={}", w.a), format!("--before-context={}", w.b)]),
            // -A and -B each override their side of -C, whichever comes first, also with 0
            3 => f.extend([format!("-C{}", w.b), format!("-A{}", w.a)]),
            4 => f.extend([format!("-A{}", w.a), format!("--context={}", w.b)]),
            5 => f.extend([format!("-C{}", w.a), format!("-B{}", w.b)]),
            6 => f.extend([format!("--before-context={}", w.b), format!("-C{}", w.a), "-C9".into(), format!("-C{}", w.a)]),
            _ => f.extend([format!("-A{}", w.a), format!("-B{}", w.b)]),
        }
    }
    if w.invert {
        f.push("-v".into());
    }
    if w.stop_nm {
        f.push("--stop-on-nonmatch".into());
    }
    if w.crlf {
        f.push("--crlf".into());
    }
    if w.byte_offset {
        f.push("-b".into());
    }
    if w.vimgrep {
        f.push("--vimgrep".into());
    }
    if w.trim {
        f.push("--trim".into());
    }
    if w.column {
        f.push("--column".into());
    }
    f.push("foo".into());
    f
}

/// Rendering of the grep model: the bytes rg is expected to print.
pub fn model_output(w: &W) -> Vec<u8> {
    let lines_v: Vec<&[u8]> = w.text.split_inclusive(|&c| c == b'\n').collect();
    let mut starts: Vec<usize> = vec![];
    let mut off = 0;
    for l in &lines_v {
        starts.push(off);
        off += l.len();
    }
    if w.vimgrep {
        // every match on a line of its own: line number, 1-based column, the whole line
        let mut out = vec![];
        for (i, l) in lines_v.iter().enumerate() {
            let mut at = 0;
            while at + 3 <= l.len() {
                if &l[at..at + 3] == b"foo" {
                    out.extend_from_slice(format!("{}:{}:", i + 1, at + 1).as_bytes());
                    out.extend_from_slice(l);
                    if !l.ends_with(b"\n") {
                        out.extend_from_slice(if w.crlf { b"\r\n" as &[u8] } else { b"\n" });
                    }
                    at += 3;
                } else {
                    at += 1;
                }
            }
        }
        return out;
    }
    let sel: Vec<bool> = lines_v.iter().map(|l| l.windows(3).any(|x| x == b"foo") != w.invert).collect();
    let (a, b) = if w.passthru { (0, 0) } else { (w.a, w.b) };
    let any_ctx = a > 0 || b > 0;
    let mut out = vec![];
    let mut last_emitted: Option<usize> = None;
    let mut last_sel: Option<usize> = None;
    for i in 0..lines_v.len() {
        let kind = if sel[i] {
            Some(b':')
        } else if last_sel.map_or(false, |j| i - j <= a) {
            Some(b'-')
        } else if w.passthru {
            Some(b'-')
        } else if (1..=b).any(|d| i + d < sel.len() && sel[i + d]) && !(w.stop_nm && last_sel.is_some()) {
            Some(b'-')
        } else {
            None
        };
        if let Some(k) = kind {
            if let Some(l) = last_emitted {
                if any_ctx && i > l + 1 {
                    // the separator line ends with the configured terminator
                    out.extend_from_slice(if w.crlf { b"--\r\n" as &[u8] } else { b"--\n" });
                }
            }
            if w.line_numbers {
                out.extend_from_slice(format!("{}", i + 1).as_bytes());
                out.push(k);
            }
            // the column of the first match: on selected lines, and with -v on the context
            // lines (which are the ones holding matches then)
            if w.column && ((k == b':') != w.invert) {
                if let Some(p) = lines_v[i].windows(3).position(|x| x == b"foo") {
                    out.extend_from_slice(format!("{}", p + 1).as_bytes());
                    out.push(k);
                }
            }
            if w.byte_offset {
                out.extend_from_slice(format!("{}", starts[i]).as_bytes());
                out.push(k);
            }
            let shown: &[u8] = if w.trim {
                let n = lines_v[i].iter().take_while(|&&b| matches!(b, b' ' | b'\t' | 0x0b | 0x0c | b'\r')).count();
                // (the terminator itself is never trimmed away)
                let n = n.min(lines_v[i].len().saturating_sub(if lines_v[i].ends_with(b"\r\n") { 2 } else if lines_v[i].ends_with(b"\n") { 1 } else { 0 }));
                &lines_v[i][n..]
            } else {
                lines_v[i]
            };
            out.extend_from_slice(shown);

            if !lines_v[i].ends_with(b"\n") {
                out.extend_from_slice(if w.crlf { b"\r\n" as &[u8] } else { b"\n" });
            }
            last_emitted = Some(i);
        }
        if sel[i] {
            last_sel = Some(i);
        } else if w.stop_nm && last_sel.is_some() {
            break;
        }
    }
    out
}

pub fn run_workload(prop: &str, sub: u64, acc: &mut Acc, ctx: &Ctx, thorough: bool) {
    let w = gen(sub);
    let mut rng = Rng::new(sub ^ 0xC03);
    let scratch = ctx.scratch.path().to_path_buf();
    let root = scratch.join("w");
    let _ = std::fs::remove_dir_all(&root);
    std::fs::create_dir_all(&root).unwrap();
    std::fs::write(root.join("doc.txt"), &w.text).unwrap();
    let fl = flags(&w);
    let with_path = |extra: &[&str]| -> Vec<String> { fl.iter().cloned().chain(extra.iter().map(|s| s.to_string())).chain(["w/doc.txt".to_string()]).collect() };
    acc.mix.inc(&format!("A={},B={}{}{}{}{}", w.a, w.b, if w.passthru { ",passthru" } else { "" }, if w.invert { ",invert" } else { "" }, if w.stop_nm { ",stop-on-nonmatch" } else { "" }, if w.crlf { ",crlf" } else { "" }));
    // the ways the bytes reach the searcher
    let mut runs: Vec<(String, RunSpec)> = vec![
        ("mmap".into(), RunSpec { args: with_path(&["--mmap"]), plan: vec!["noop=1".into()], ..RunSpec::default() }),
        ("read".into(), RunSpec { args: with_path(&["--no-mmap"]), plan: vec!["noop=1".into()], ..RunSpec::default() }),
        ("stdin".into(), RunSpec { args: fl.clone(), stdin: Some(w.text.clone()), ..RunSpec::default() }),
    ];
    // stat of the opened file fails (the open and the reads work): the searcher only loses a
    // size hint, and a memory map falls back to reads
    let errno = [5, 13, 116][rng.below(3)];
    runs.push(("read+nofstat".into(), RunSpec { args: with_path(&["--no-mmap"]), plan: vec![format!("fstat_err=/w/doc.txt:{errno}")], ..RunSpec::default() }));
    runs.push(("mmap+nofstat".into(), RunSpec { args: with_path(&["--mmap"]), plan: vec![format!("fstat_err=/w/doc.txt:{errno}")], ..RunSpec::default() }));
    // the memory map itself fails (the descriptor and its stat are fine): back to reading
    runs.push(("mmap+mapfails".into(), RunSpec { args: with_path(&["--mmap"]), plan: vec![format!("mmap_err=/w/doc.txt:{}", [12, 19, 1][rng.below(3)])], ..RunSpec::default() }));
    // standard input is a pipe: reads cut into small pieces, one of them answered EINTR
    runs.push(("stdin+pipefaults".into(), RunSpec { args: fl.clone(), stdin: Some(w.text.clone()), plan: vec![format!("pipe_eintr={}", rng.below(5)), format!("pipe_frag={}", 1 + rng.below(500))], ..RunSpec::default() }));
    let nfrag = if thorough { 6 } else { 2 };
    for _ in 0..nfrag {
        let seed = 1 + rng.below(200);
        let mut plan = vec![format!("read_frag={seed}")];
        if rng.chance(1, 2) {
            plan.push(format!("read_err=/w/doc.txt:{}:4", rng.below(12)));
        }
        runs.push((format!("read+frag{seed}"), RunSpec { args: with_path(&["--no-mmap"]), plan, ..RunSpec::default() }));
    }
    let expected = model_output(&w);
    let exp_code = if expected.iter().any(|_| true) && model_has_match(&w) { 0 } else { 1 };
    let mut first: Option<(String, RunOut)> = None;
    let mut digest = sub;
    for (name, spec) in runs {
        let got = ctx.run(&scratch, &spec, 60);
        acc.evals += 1;
        acc.faults.add("read-fragmentation", got.fired("read_frag"));
        acc.faults.add("read-EINTR", got.fired("read_eintr"));
        acc.faults.add("fstat-of-open-file-fails", got.fired("fstat_err"));
        acc.faults.add("mmap-of-open-file-fails", got.fired("mmap_err"));
        acc.faults.add("pipe-read-EINTR", got.fired("pipe_eintr"));
        acc.faults.add("pipe-read-fragmentation", got.fired("pipe_frag"));
        acc.faults.inc(&format!("route:{}", name.split('+').next().unwrap().trim_end_matches(char::is_numeric)));
        digest = digest_out(digest, &got);
        let body = |summary_ref: &RunOut| json!({"engine": "procsim", "kind": "c03", "subseed_workload": sub, "route": name, "run": spec_json(&spec), "input": show(&w.text), "expected_by_model": show(&expected), "other_route": summary_ref.to_json(), "observed": got.to_json()});
        if prop == "C03" {
            if got.stdout != expected || got.code != exp_code || !got.stderr.is_empty() {
                acc.violation("C03", &format!("cli-differs-from-model:{}", name.split('+').next().unwrap()), format!("rg {:?} via {name}: output differs from the grep model's rendering (exit {} expected {exp_code}; {} vs {} bytes)", fl, got.code, got.stdout.len(), expected.len()), sub, body(&got));
            }
        } else {
            match &first {
                None => first = Some((name.clone(), got.clone())),
                Some((n0, r0)) => {
                    if got.stdout != r0.stdout || got.code != r0.code || got.stderr != r0.stderr {
                        acc.violation("C02", &format!("cli-routes-differ:{}-vs-{}", n0, name.split('+').next().unwrap()), format!("rg {:?}: output via {name} differs from output via {n0} (exit {} vs {}; {} vs {} bytes)", fl, got.code, r0.code, got.stdout.len(), r0.stdout.len()), sub, body(r0));
                    }
                }
            }
        }
    }
    // The accounting that travels with the results: JSON messages (line numbers, offsets, spans,
    // per-file and total statistics) and the --stats trailer, via reads and via a memory map.
    if prop == "C03" && !w.vimgrep && rng.chance(1, 2) {
        let base: Vec<String> = fl.iter().filter(|f| !matches!(f.as_str(), "-b" | "--column" | "--trim" | "--vimgrep" | "-N")).cloned().collect();
        for map in ["--no-mmap", "--mmap"] {
            let jargs: Vec<String> = base.iter().cloned().chain(["--json".to_string(), map.to_string(), "w/doc.txt".to_string()]).collect();
            let sargs: Vec<String> = fl.iter().cloned().chain(["--stats".to_string(), map.to_string(), "w/doc.txt".to_string()]).collect();
            let plan = if map == "--no-mmap" { vec![format!("read_frag={}", 1 + rng.below(200))] } else { vec!["noop=1".into()] };
            let jspec = RunSpec { args: jargs, plan: plan.clone(), ..RunSpec::default() };
            let sspec = RunSpec { args: sargs, plan, ..RunSpec::default() };
            let j = ctx.run(&scratch, &jspec, 60);
            let st = ctx.run(&scratch, &sspec, 60);
            acc.evals += 2;
            acc.faults.inc("route:accounting");
            digest = digest_out(digest_out(digest, &RunOut { stdout: mask_times(&j.stdout), ..j.clone() }), &RunOut { stdout: mask_times(&st.stdout), ..st.clone() });
            // (under --crlf the per-match printing path that --stats switches on re-terminates
            // every line with CR LF: presentation; there only the trailer's counts are judged)
            let results = strip_stats(&st.stdout);
            let rendered = model_output(&w);
            let verdict = if !w.crlf && results != rendered {
                Err(format!("with --stats the results before the trailer differ from the model's rendering ({} vs {} bytes)", results.len(), rendered.len()))
            } else {
                accounting(&w, &j.stdout, &st.stdout[results.len()..], if w.crlf { None } else { Some(rendered.len() as u64) })
            };
            if let Err(e) = verdict {
                acc.violation("C03", &format!("accounting-differs-from-model:{}", map.trim_start_matches("--")), format!("rg {:?}: {e}", fl), sub, json!({"engine": "procsim", "kind": "c03", "subseed_workload": sub, "route": format!("accounting{map}"), "run": spec_json(&jspec), "stats_run": spec_json(&sspec), "input": show(&w.text), "json_output": show(&j.stdout), "stats_output": show(&st.stdout)}));
            }
        }
    }
    // Two files searched one after the other by the same searcher, half of the time with -U
    // and a pattern that can match a line terminator (it selects the same lines as foo): the
    // whole-file multi-line buffer is reused from file to file. With and without the stat of
    // the second, already opened file failing.
    if !w.stop_nm {
        let npre = 1 + rng.below(20);
        let mut pre = gen_text(&mut rng, npre, 3);
        if rng.chance(1, 4) {
            pre.pop();
        }
        std::fs::write(root.join("a-pre.txt"), &pre).unwrap();
        let ml = rng.chance(1, 2);
        let map = if rng.chance(1, 3) { "--mmap" } else { "--no-mmap" };
        let (fl, w) = ml_variant(&fl, &w, ml);
        let expected = model_output(&w);
        let mut targs: Vec<String> = fl[..fl.len() - 1].to_vec();
        if ml {
            targs.extend(["-U".into(), "foo\\n?".into()]);
        } else {
            targs.push("foo".into());
        }
        targs.extend([map.into(), "w/a-pre.txt".into(), "w/doc.txt".into()]);
        let first_out = model_output(&W { text: pre.clone(), ..w.clone() });
        let mut exp2 = first_out.clone();
        if !w.passthru && (w.a > 0 || w.b > 0) && !first_out.is_empty() && !expected.is_empty() {
            exp2.extend_from_slice(if w.crlf { b"--\r\n" as &[u8] } else { b"--\n" });
        }
        exp2.extend_from_slice(&expected);
        let exp2_code = if (model_has_match(&W { text: pre.clone(), ..w.clone() }) && !first_out.is_empty()) || exp_code == 0 { 0 } else { 1 };
        let mut base: Option<RunOut> = None;
        let mut plans = vec![("twofiles", vec!["noop=1".to_string()]), ("twofiles+nofstat", vec![format!("fstat_err=/w/doc.txt:{errno}")])];
        if map == "--no-mmap" && w.text.len() > 4 {
            // the second file is larger when read than the size its stat reported (it grew):
            // what is read is what is searched
            plans.push(("twofiles+grew", vec![format!("fstat_size=/w/doc.txt:{}", 1 + rng.below(w.text.len() - 1))]));
        }
        for (name, plan) in plans {
            let spec = RunSpec { args: targs.clone(), plan, ..RunSpec::default() };
            let got = ctx.run(&scratch, &spec, 60);
            let got = if targs.iter().any(|a| a == "--stats") { RunOut { stdout: strip_stats(&got.stdout), ..got } } else { got };
            acc.evals += 1;
            acc.faults.add("fstat-of-open-file-fails", got.fired("fstat_err"));
            acc.faults.add("file-larger-than-its-stat-size", got.fired("fstat_size"));
            acc.faults.inc(&format!("route:{name}{}", if ml { "(-U)" } else { "" }));
            digest = digest_out(digest, &got);
            let body = |other: &RunOut| json!({"engine": "procsim", "kind": "c03", "subseed_workload": sub, "route": name, "run": spec_json(&spec), "input": show(&w.text), "first_file": show(&pre), "expected_by_model": show(&exp2), "other_route": other.to_json(), "observed": got.to_json()});
            if prop == "C03" {
                if got.stdout != exp2 || got.code != exp2_code || !got.stderr.is_empty() {
                    acc.violation("C03", &format!("cli-differs-from-model:{name}{}", if ml { "(-U)" } else { "" }), format!("rg {:?}: output for two files differs from the grep model's rendering (exit {} expected {exp2_code}; {} vs {} bytes)", targs, got.code, got.stdout.len(), exp2.len()), sub, body(&got));
                }
            } else if let Some(b) = &base {
                if got.stdout != b.stdout || got.code != b.code || got.stderr != b.stderr {
                    acc.violation("C02", &format!("cli-routes-differ:twofiles-vs-{name}"), format!("rg {:?}: the failing stat of the opened second file changed the outcome (exit {} vs {}; {} vs {} bytes)", targs, got.code, b.code, got.stdout.len(), b.stdout.len()), sub, body(b));
                }
            }
            if base.is_none() {
                base = Some(got);
            }
        }
    }
    // A named pipe in place of the file: its stat reports size 0 although reads return data, and
    // it cannot be mapped. Half of the time with -U and the line-terminator-capable pattern.
    {
        use std::os::unix::fs::OpenOptionsExt;
        let fifo = root.join("pipe");
        let _ = std::fs::remove_file(&fifo);
        let cpath = std::ffi::CString::new(fifo.to_str().unwrap()).unwrap();
        if unsafe { libc::mkfifo(cpath.as_ptr(), 0o644) } == 0 {
            let ml = !w.stop_nm && rng.chance(1, 2);
            let map = if rng.chance(1, 2) { "--mmap" } else { "--no-mmap" };
            let (fl, w) = ml_variant(&fl, &w, ml);
            let expected = model_output(&w);
            let mut targs: Vec<String> = fl[..fl.len() - 1].to_vec();
            if ml {
                targs.extend(["-U".into(), "foo\\n?".into()]);
            } else {
                targs.push("foo".into());
            }
            targs.extend([map.into(), "w/pipe".into()]);
            let text = w.text.clone();
            let fpath = fifo.clone();
            let writer = std::thread::spawn(move || {
                use std::io::Write;
                if let Ok(mut f) = std::fs::OpenOptions::new().write(true).open(&fpath) {
                    let _ = f.write_all(&text);
                }
            });
            let spec = RunSpec { args: targs.clone(), plan: vec!["noop=1".into()], ..RunSpec::default() };
            let got = ctx.run(&scratch, &spec, 60);
            let with_stats = targs.iter().any(|a| a == "--stats");
            let got = if with_stats { RunOut { stdout: strip_stats(&got.stdout), ..got } } else { got };
            // release the writer should rg never have opened the pipe
            if let Ok(mut f) = std::fs::OpenOptions::new().read(true).custom_flags(libc::O_NONBLOCK).open(&fifo) {
                use std::io::Read;
                let mut sink = vec![];
                let _ = f.read_to_end(&mut sink);
            }
            let _ = writer.join();
            let _ = std::fs::remove_file(&fifo);
            acc.evals += 1;
            acc.faults.inc(&format!("route:named-pipe{}", if ml { "(-U)" } else { "" }));
            digest = digest_out(digest, &got);
            let body = json!({"engine": "procsim", "kind": "c03", "subseed_workload": sub, "route": "named-pipe", "run": spec_json(&spec), "input": show(&w.text), "expected_by_model": show(&expected), "observed": got.to_json()});
            if prop == "C03" {
                if got.stdout != expected || got.code != exp_code || !got.stderr.is_empty() {
                    acc.violation("C03", &format!("cli-differs-from-model:named-pipe{}", if ml { "(-U)" } else { "" }), format!("rg {:?}: output for a named pipe differs from the grep model's rendering (exit {} expected {exp_code}; {} vs {} bytes)", targs, got.code, got.stdout.len(), expected.len()), sub, body);
                }
            } else if let (Some((n0, r0)), false) = (&first, with_stats) {
                if got.stdout != r0.stdout || got.code != r0.code || got.stderr != r0.stderr {
                    acc.violation("C02", &format!("cli-routes-differ:{n0}-vs-named-pipe{}", if ml { "(-U)" } else { "" }), format!("rg {:?}: output for a named pipe differs from output via {n0} (exit {} vs {}; {} vs {} bytes)", targs, got.code, r0.code, got.stdout.len(), r0.stdout.len()), sub, body);
                }
            }
        }
    }
    if !expected.is_empty() {
        acc.distinct.insert(fnv(&w.text) ^ sub);
    }
    acc.digests.push((sub, digest));
    if acc.samples.len() < 1 && expected.len() > 20 && w.text.len() < 300 {
        acc.samples.push(json!({"subseed": sub, "leg": "cli", "flags": fl, "input": show(&w.text), "expected_output": show(&expected), "routes": "mmap, read, stdin, read under syscall fragmentation (+EINTR)"}));
    }
}

/// Under -U a block of adjacent matching lines is one match and only its first line carries the
/// match's column, so --column is not comparable with the line-by-line rendering: it is replaced
/// by --stats, which switches on the same per-match bookkeeping in the printer (the statistics
/// trailer is cut off before comparing).
fn ml_variant(fl: &[String], w: &W, ml: bool) -> (Vec<String>, W) {
    if !ml || !w.column {
        return (fl.to_vec(), w.clone());
    }
    // (not with --crlf: the per-match printing path re-terminates every line with CR LF, a bare
    // LF included - presentation, not something the property speaks about; --column is just dropped)
    let fl2: Vec<String> = fl.iter().filter(|f| !(w.crlf && *f == "--column")).map(|f| if f == "--column" { "--stats".to_string() } else { f.clone() }).collect();
    (fl2, W { column: false, ..w.clone() })
}

/// Cuts the --stats trailer ("\nN matches\n...") off the end of stdout.
fn strip_stats(out: &[u8]) -> Vec<u8> {
    // the trailer: an empty line, "<n> matches", "<n> matched lines", ...
    let mut starts = vec![0usize];
    for (i, &b) in out.iter().enumerate() {
        if b == b'\n' && i + 1 < out.len() {
            starts.push(i + 1);
        }
    }
    let line = |k: usize| -> &[u8] {
        let s = starts[k];
        let e = if k + 1 < starts.len() { starts[k + 1] - 1 } else { out.len().saturating_sub(1).max(s) };
        &out[s..e.max(s)]
    };
    let is = |l: &[u8], suffix: &[u8]| l.ends_with(suffix) && l.len() > suffix.len() && l[..l.len() - suffix.len()].iter().all(|b| b.is_ascii_digit());
    for k in (1..starts.len().saturating_sub(1)).rev() {
        if is(line(k), b" matches") && is(line(k + 1), b" matched lines") && line(k - 1).is_empty() {
            return out[..starts[k - 1]].to_vec();
        }
    }
    out.to_vec()
}

fn model_has_match(w: &W) -> bool {
    w.text.split_inclusive(|&c| c == b'\n').any(|l| l.windows(3).any(|x| x == b"foo") != w.invert)
}

pub fn replay(prop: &str, v: &Value) -> Vec<Violation> {
    let ctx = Ctx::new("c03replay");
    let mut acc = Acc::new();
    run_workload(prop, v["subseed_workload"].as_u64().unwrap_or(1), &mut acc, &ctx, true);
    acc.violations
}


/// The grep model as a list of (is_selected_line, line index): what `model_output` renders.
pub fn model_events(w: &W) -> Vec<(bool, usize)> {
    let lines_v: Vec<&[u8]> = w.text.split_inclusive(|&c| c == b'\n').collect();
    let sel: Vec<bool> = lines_v.iter().map(|l| l.windows(3).any(|x| x == b"foo") != w.invert).collect();
    let (a, b) = if w.passthru { (0, 0) } else { (w.a, w.b) };
    let mut evs = vec![];
    let mut last_sel: Option<usize> = None;
    for i in 0..lines_v.len() {
        if sel[i] {
            evs.push((true, i));
        } else if last_sel.map_or(false, |j| i - j <= a) || w.passthru || ((1..=b).any(|d| i + d < sel.len() && sel[i + d]) && !(w.stop_nm && last_sel.is_some())) {
            evs.push((false, i));
        }
        if sel[i] {
            last_sel = Some(i);
        } else if w.stop_nm && last_sel.is_some() {
            break;
        }
    }
    evs
}

fn foo_spans(l: &[u8]) -> Vec<(usize, usize)> {
    let mut v = vec![];
    let mut at = 0;
    while at + 3 <= l.len() {
        if &l[at..at + 3] == b"foo" {
            v.push((at, at + 3));
            at += 3;
        } else {
            at += 1;
        }
    }
    v
}

fn b64(s: &str) -> Vec<u8> {
    let val = |c: u8| -> u32 {
        match c {
            b'A'..=b'Z' => (c - b'A') as u32,
            b'a'..=b'z' => (c - b'a' + 26) as u32,
            b'0'..=b'9' => (c - b'0' + 52) as u32,
            b'+' => 62,
            _ => 63,
        }
    };
    let bytes: Vec<u8> = s.bytes().filter(|&c| c != b'=').collect();
    let mut out = vec![];
    for ch in bytes.chunks(4) {
        let mut acc = 0u32;
        for (i, &c) in ch.iter().enumerate() {
            acc |= val(c) << (18 - 6 * i);
        }
        let n = ch.len() * 6 / 8;
        for i in 0..n {
            out.push((acc >> (16 - 8 * i)) as u8);
        }
    }
    out
}

fn data_bytes(v: &Value) -> Vec<u8> {
    if let Some(t) = v["text"].as_str() {
        t.as_bytes().to_vec()
    } else {
        b64(v["bytes"].as_str().unwrap_or(""))
    }
}

/// The accounting that travels with the results (JSON messages and the --stats trailer), judged
/// against the model: line numbers, absolute offsets, submatch spans, per-file and total counts,
/// bytes printed and bytes searched.
fn accounting(w: &W, json_out: &[u8], trailer: &[u8], rendered_len: Option<u64>) -> Result<(), String> {
    let lines_v: Vec<&[u8]> = w.text.split_inclusive(|&c| c == b'\n').collect();
    let mut starts = vec![];
    let mut off = 0;
    for l in &lines_v {
        starts.push(off);
        off += l.len();
    }
    let evs = model_events(w);
    let n_sel = evs.iter().filter(|e| e.0).count() as u64;
    let n_sub: u64 = evs.iter().filter(|e| e.0).map(|e| foo_spans(lines_v[e.1]).len() as u64).sum();
    let stopped_early = w.stop_nm && evs.last().map_or(false, |e| e.1 + 1 < lines_v.len());
    // ---- JSON ----
    let msgs: Vec<Value> = json_out.split(|&b| b == b'\n').filter(|l| !l.is_empty()).map(|l| serde_json::from_slice(l).map_err(|e| format!("unparsable JSON message {:?}: {e}", show(l)))).collect::<Result<_, _>>()?;
    let types: Vec<&str> = msgs.iter().map(|m| m["type"].as_str().unwrap_or("?")).collect();
    if evs.is_empty() {
        if types != ["summary"] {
            return Err(format!("no line to report, yet the messages are {types:?}"));
        }
    } else {
        if types.first() != Some(&"begin") || types.len() < 3 || types[types.len() - 2] != "end" || types[types.len() - 1] != "summary" {
            return Err(format!("message frame is not begin .. end summary: {types:?}"));
        }
        let body = &msgs[1..msgs.len() - 2];
        if body.len() != evs.len() {
            return Err(format!("{} match/context messages, the model has {} lines", body.len(), evs.len()));
        }
        let mut printed_bytes = 0u64;
        for l in json_out.split_inclusive(|&b| b == b'\n').take(msgs.len() - 2) {
            printed_bytes += l.len() as u64;
        }
        for (m, &(is_sel, i)) in body.iter().zip(&evs) {
            let want_type = if is_sel { "match" } else { "context" };
            let d = &m["data"];
            if m["type"] != want_type || d["line_number"].as_u64() != Some(i as u64 + 1) || d["absolute_offset"].as_u64() != Some(starts[i] as u64) || data_bytes(&d["lines"]) != lines_v[i] {
                return Err(format!("message for line {} is {} line_number={} absolute_offset={} text {:?}; the model has a {want_type} at offset {} with text {:?}", i + 1, m["type"], d["line_number"], d["absolute_offset"], show(&data_bytes(&d["lines"])), starts[i], show(lines_v[i])));
            }
            // the spans of the pattern: on selected lines, and with -v on the other ones
            let want_spans = if is_sel != w.invert { foo_spans(lines_v[i]) } else { vec![] };
            let got_spans: Vec<(usize, usize)> = d["submatches"].as_array().map(|a| a.iter().map(|x| (x["start"].as_u64().unwrap_or(9999) as usize, x["end"].as_u64().unwrap_or(9999) as usize)).collect()).unwrap_or_default();
            if got_spans != want_spans || d["submatches"].as_array().map_or(false, |a| a.iter().any(|x| data_bytes(&x["match"]) != b"foo")) {
                return Err(format!("submatches of line {}: {got_spans:?}, the model has {want_spans:?}", i + 1));
            }
        }
        let end = &msgs[msgs.len() - 2]["data"];
        let st = &end["stats"];
        if st["matched_lines"].as_u64() != Some(n_sel) || (!w.invert && st["matches"].as_u64() != Some(n_sub)) || !end["binary_offset"].is_null() || st["searches"].as_u64() != Some(1) || st["searches_with_match"].as_u64() != Some((n_sel > 0) as u64) {
            return Err(format!("end message says {st} binary_offset={}; the model has {n_sel} selected lines with {n_sub} matches", end["binary_offset"]));
        }
        if st["bytes_printed"].as_u64() != Some(printed_bytes) {
            return Err(format!("end message says bytes_printed={}, the messages of this file before it take {printed_bytes} bytes", st["bytes_printed"]));
        }
        if !stopped_early && st["bytes_searched"].as_u64() != Some(w.text.len() as u64) {
            return Err(format!("end message says bytes_searched={}, the file has {} bytes and the search was not cut short", st["bytes_searched"], w.text.len()));
        }
        if stopped_early && st["bytes_searched"].as_u64().map_or(true, |b| b > w.text.len() as u64 || (b as usize) < starts[evs.last().unwrap().1]) {
            return Err(format!("end message says bytes_searched={} for a search that stopped in line {} of a {} byte file", st["bytes_searched"], evs.last().unwrap().1 + 1, w.text.len()));
        }
    }
    let sm = &msgs[msgs.len() - 1]["data"]["stats"];
    // (a file of which no line is reported prints no begin/end pair and the JSON printer then leaves
    // it out of its totals altogether - searches 0, bytes searched 0 - while the --stats trailer
    // counts it: the searcher did report the length; how the JSON printer sums up is not part of
    // the listed property, so only the trailer is judged there)
    if !evs.is_empty() && (sm["searches"].as_u64() != Some(1) || sm["searches_with_match"].as_u64() != Some((n_sel > 0) as u64) || sm["matched_lines"].as_u64() != Some(n_sel) || (!w.invert && sm["matches"].as_u64() != Some(n_sub)) || (!stopped_early && sm["bytes_searched"].as_u64() != Some(w.text.len() as u64))) {
        return Err(format!("summary says {sm}; the model has one search, {n_sel} selected lines, {n_sub} matches, {} bytes", w.text.len()));
    }
    if !evs.is_empty() && sm["bytes_printed"] != msgs[msgs.len() - 2]["data"]["stats"]["bytes_printed"] {
        return Err(format!("summary bytes_printed {} differs from the only file's {}", sm["bytes_printed"], msgs[msgs.len() - 2]["data"]["stats"]["bytes_printed"]));
    }
    // ---- --stats trailer ----
    let trailer = String::from_utf8_lossy(trailer).to_string();
    let num = |suffix: &str| -> Option<u64> { trailer.lines().find(|l| l.ends_with(suffix)).and_then(|l| l[..l.len() - suffix.len()].trim().parse().ok()) };
    let want: [(&str, Option<u64>); 6] = [
        (" matches", if w.invert { num(" matches") } else { Some(n_sub) }),
        (" matched lines", Some(n_sel)),
        (" files contained matches", Some((n_sel > 0) as u64)),
        (" files searched", Some(1)),
        (" bytes printed", rendered_len.or(num(" bytes printed"))),
        (" bytes searched", if stopped_early { num(" bytes searched") } else { Some(w.text.len() as u64) }),
    ];
    for (suffix, v) in want {
        if num(suffix) != v || v.is_none() {
            return Err(format!("--stats trailer says {:?}{suffix}, expected {:?}; trailer: {:?}", num(suffix), v, trailer));
        }
    }
    if !trailer.starts_with('\n') {
        return Err(format!("--stats trailer does not start with an empty line: {trailer:?}"));
    }
    Ok(())
}
