/* faultshim.so — LD_PRELOAD syscall-level fault injector for the real rg
 * binary (engine E3 `procsim`).
 *
 * The fault plan comes from the environment (derived from VERIF_SEED by the
 * driver), so a run is a pure function of (argv, tree, plan):
 *
 *   FAULTSHIM_ROOT   only paths beneath this prefix are ever faulted
 *   FAULTSHIM_PLAN   ';'-separated directives
 *       stdout_budget=K          fd 1 accepts K bytes in total (short write up
 *                                to K), afterwards every write fails with EPIPE
 *       open_err=SUFFIX:ERRNO    open*() of a path ending in SUFFIX fails
 *       opendir_err=SUFFIX:ERRNO opendir() of a path ending in SUFFIX fails
 *       read_err=SUFFIX:J:ERRNO  the J-th read() (0-based) on a file whose
 *                                path ends in SUFFIX fails with ERRNO
 *                                (EINTR is transient: that one call only)
 *       read_eof=SUFFIX:J        the J-th read() on a matching file (and every
 *                                later one) returns 0: the file was truncated
 *                                between listing and reading
 *       stat_err=SUFFIX:ERRNO    stat/lstat/statx/fstatat BY NAME of a path ending in
 *                                SUFFIX fails (fstat of an open descriptor does not):
 *                                the file vanished or its directory lost search
 *                                permission between listing and stat
 *       fstat_err=SUFFIX:ERRNO   fstat()/statx(fd, "") of an OPEN file whose path ends in
 *                                SUFFIX fails (the open and the reads work)
 *       pipe_eintr=J             on every pipe (a child's stdout/stderr, stdin when it is
 *                                a pipe) the J-th read() is answered EINTR once; several
 *                                directives give several indices
 *       pipe_frag=SEED           reads on pipes return between 1 and 97 bytes
 *       fstat_size=SUFFIX:N      fstat()/statx(fd, "") of an open file whose path ends in SUFFIX
 *                                succeeds but reports a size N bytes smaller than the file (the
 *                                file grew after it was examined)
 *       mmap_err=SUFFIX:ERRNO    mmap() of an open file whose path ends in SUFFIX fails
 *       readdir_err=SUFFIX:K:ERRNO  the K-th readdir() on a directory whose path ends in SUFFIX
 *                                fails (the directory was opened and partly listed)
 *       stdout_frag=SEED         every write to fd 1 accepts between 1 and 97 bytes only (short
 *                                writes without any error)
 *       stdout_eintr=J           the J-th write to fd 1 is answered EINTR once
 *       read_frag=SEED           every read() on files beneath ROOT returns
 *                                between 1 and 97 bytes (seeded per fd)
 *   FAULTSHIM_OUT    file that receives the "what actually fired" counters
 */
#define _GNU_SOURCE
#include <dirent.h>
#include <dlfcn.h>
#include <errno.h>
#include <fcntl.h>
#include <pthread.h>
#include <stdarg.h>
#include <stdint.h>
#include <stdio.h>
#include <stdlib.h>
#include <string.h>
#include <sys/stat.h>
#include <sys/types.h>
#include <sys/mman.h>
#include <sys/syscall.h>
#include <sys/uio.h>
#include <unistd.h>

#define MAXFD 4096
#define MAXRULES 64

struct rule { char suffix[256]; int err; long idx; };

static pthread_mutex_t mu = PTHREAD_MUTEX_INITIALIZER;
static int inited;
static char root[1024];
static char cwd[1024];
static long stdout_budget = -1;      /* -1: unlimited */
static long stdout_written;
static int epipe_seen;
static struct rule open_rules[MAXRULES], opendir_rules[MAXRULES], read_rules[MAXRULES], eof_rules[MAXRULES], stat_rules[MAXRULES], fstat_rules[MAXRULES];
static int n_open, n_opendir, n_read, n_eof, n_stat, n_fstat;
static long pipe_eintr_at[MAXRULES];
static int n_pipe_eintr;
static int pipe_frag_on;
static struct rule mmap_rules[MAXRULES], readdir_rules[MAXRULES], fsize_rules[MAXRULES];
static int n_fsize;
static long c_fsize;
static int n_mmap, n_readdir;
static long c_mmap_err, c_readdir_err;
#define MAXDIRS 256
static DIR *dir_ptr[MAXDIRS];
static char *dir_path[MAXDIRS];
static long dir_reads[MAXDIRS];
static int out_frag_on;
static uint64_t out_frag_rng;
static long out_eintr_at[MAXRULES];
static int n_out_eintr;
static long out_writes;
static long c_out_frag, c_out_eintr;
static uint64_t pipe_frag_seed;
static signed char fdfifo[MAXFD];   /* 0 unknown, 1 pipe, -1 not a pipe */
static long fifo_reads[MAXFD];
static uint64_t fifo_rng[MAXFD];
static uint64_t frag_seed;
static int frag_on;
static char *fdpath[MAXFD];
static long fdreads[MAXFD];
static uint64_t fdrng[MAXFD];

/* counters of what fired */
static long c_epipe, c_short_write, c_open_err, c_opendir_err, c_read_err, c_read_eintr, c_read_frag, c_opens_after_epipe, c_opens, c_read_eof, c_stat_err, c_fstat_err, c_pipe_eintr, c_pipe_frag;

static ssize_t (*real_write)(int, const void *, size_t);
static ssize_t (*real_read)(int, void *, size_t);
static int (*real_open)(const char *, int, ...);
static int (*real_open64)(const char *, int, ...);
static int (*real_openat)(int, const char *, int, ...);
static int (*real_openat64)(int, const char *, int, ...);
static int (*real_close)(int);
static DIR *(*real_opendir)(const char *);

static int ends_with(const char *s, const char *suf) {
    size_t a = strlen(s), b = strlen(suf);
    return a >= b && strcmp(s + a - b, suf) == 0;
}

static void parse_rule(struct rule *r, const char *v, int with_idx) {
    /* SUFFIX[:J]:ERRNO */
    char tmp[512];
    strncpy(tmp, v, sizeof tmp - 1); tmp[sizeof tmp - 1] = 0;
    char *last = strrchr(tmp, ':');
    if (!last) return;
    r->err = atoi(last + 1); *last = 0;
    r->idx = -1;
    if (with_idx) {
        char *mid = strrchr(tmp, ':');
        if (!mid) return;
        r->idx = atol(mid + 1); *mid = 0;
    }
    strncpy(r->suffix, tmp, sizeof r->suffix - 1);
}

static void dump(void) {
    const char *out = getenv("FAULTSHIM_OUT");
    extern char *program_invocation_short_name;
    if (!out || !real_open || strcmp(program_invocation_short_name, "rg") != 0) return;
    char buf[1024];
    int n = snprintf(buf, sizeof buf,
        "epipe=%ld\nshort_write=%ld\nopen_err=%ld\nopendir_err=%ld\nread_err=%ld\nread_eintr=%ld\nread_frag=%ld\nopens=%ld\nopens_after_epipe=%ld\nstdout_written=%ld\nread_eof=%ld\nstat_err=%ld\nfstat_err=%ld\npipe_eintr=%ld\npipe_frag=%ld\nstdout_frag=%ld\nstdout_eintr=%ld\nmmap_err=%ld\nreaddir_err=%ld\nfstat_size=%ld\n",
        c_epipe, c_short_write, c_open_err, c_opendir_err, c_read_err, c_read_eintr, c_read_frag, c_opens, c_opens_after_epipe, stdout_written, c_read_eof, c_stat_err, c_fstat_err, c_pipe_eintr, c_pipe_frag, c_out_frag, c_out_eintr, c_mmap_err, c_readdir_err, c_fsize);
    int fd = real_open(out, O_WRONLY | O_CREAT | O_TRUNC, 0644);
    if (fd >= 0) { real_write(fd, buf, n); real_close(fd); }
}

static void parse_plan(const char *plan) {
    char *copy = strdup(plan), *save = NULL;
    for (char *tok = strtok_r(copy, ";", &save); tok; tok = strtok_r(NULL, ";", &save)) {
        char *eq = strchr(tok, '=');
        if (!eq) continue;
        *eq = 0;
        const char *k = tok, *v = eq + 1;
        if (!strcmp(k, "stdout_budget")) stdout_budget = atol(v);
        else if (!strcmp(k, "open_err") && n_open < MAXRULES) parse_rule(&open_rules[n_open++], v, 0);
        else if (!strcmp(k, "fstat_err") && n_fstat < MAXRULES) parse_rule(&fstat_rules[n_fstat++], v, 0);
        else if (!strcmp(k, "pipe_eintr") && n_pipe_eintr < MAXRULES) pipe_eintr_at[n_pipe_eintr++] = atol(v);
        else if (!strcmp(k, "pipe_frag")) { pipe_frag_on = 1; pipe_frag_seed = strtoull(v, NULL, 10); }
        else if (!strcmp(k, "fstat_size") && n_fsize < MAXRULES) parse_rule(&fsize_rules[n_fsize++], v, 0);
        else if (!strcmp(k, "mmap_err") && n_mmap < MAXRULES) parse_rule(&mmap_rules[n_mmap++], v, 0);
        else if (!strcmp(k, "readdir_err") && n_readdir < MAXRULES) parse_rule(&readdir_rules[n_readdir++], v, 1);
        else if (!strcmp(k, "stdout_frag")) { out_frag_on = 1; out_frag_rng = strtoull(v, NULL, 10) * 0x9E3779B97F4A7C15ULL | 1; }
        else if (!strcmp(k, "stdout_eintr") && n_out_eintr < MAXRULES) out_eintr_at[n_out_eintr++] = atol(v);
        else if (!strcmp(k, "stat_err") && n_stat < MAXRULES) parse_rule(&stat_rules[n_stat++], v, 0);
        else if (!strcmp(k, "opendir_err") && n_opendir < MAXRULES) parse_rule(&opendir_rules[n_opendir++], v, 0);
        else if (!strcmp(k, "read_err") && n_read < MAXRULES) parse_rule(&read_rules[n_read++], v, 1);
        else if (!strcmp(k, "read_eof") && n_eof < MAXRULES) { char tmp[600]; snprintf(tmp, sizeof tmp, "%s:0", v); parse_rule(&eof_rules[n_eof++], tmp, 1); }
        else if (!strcmp(k, "read_frag")) { frag_on = 1; frag_seed = strtoull(v, NULL, 10); }
    }
    free(copy);
}

static void init(void) {
    if (inited) return;
    pthread_mutex_lock(&mu);
    if (inited) { pthread_mutex_unlock(&mu); return; }
    real_write = dlsym(RTLD_NEXT, "write");
    real_read = dlsym(RTLD_NEXT, "read");
    real_open = dlsym(RTLD_NEXT, "open");
    real_open64 = dlsym(RTLD_NEXT, "open64");
    real_openat = dlsym(RTLD_NEXT, "openat");
    real_openat64 = dlsym(RTLD_NEXT, "openat64");
    real_close = dlsym(RTLD_NEXT, "close");
    real_opendir = dlsym(RTLD_NEXT, "opendir");
    if (!getcwd(cwd, sizeof cwd)) cwd[0] = 0;
    const char *r = getenv("FAULTSHIM_ROOT");
    if (r) strncpy(root, r, sizeof root - 1);
    const char *plan = getenv("FAULTSHIM_PLAN");
    /* The environment is inherited by rg's child processes (--pre, -z); the
     * plan is meant for rg itself only. */
    extern char *program_invocation_short_name;
    if (plan && strcmp(program_invocation_short_name, "rg") != 0) plan = NULL;
    if (plan) parse_plan(plan);
    atexit(dump);
    inited = 1;
    pthread_mutex_unlock(&mu);
}

/* Absolute form of a path (relative paths are taken from the directory the
 * process started in; rg never changes directory). */
static const char *absolute(const char *p, char *buf, size_t n) {
    if (p[0] == '/') return p;
    if (p[0] == '.' && p[1] == '/') p += 2;
    snprintf(buf, n, "%s/%s", cwd, p);
    return buf;
}

static int under_root(const char *p) {
    return root[0] && strncmp(p, root, strlen(root)) == 0;
}

static int match_rule(struct rule *rules, int n, const char *path) {
    if (!under_root(path)) return -1;
    for (int i = 0; i < n; i++)
        if (ends_with(path, rules[i].suffix)) return i;
    return -1;
}

static void note_open(int fd, const char *path0, int flags) {
    char abuf[2048];
    const char *path = absolute(path0, abuf, sizeof abuf);
    if (fd < 0 || fd >= MAXFD || !under_root(path)) return;
    pthread_mutex_lock(&mu);
    free(fdpath[fd]);
    fdpath[fd] = strdup(path);
    fdreads[fd] = 0;
    fdrng[fd] = frag_seed ^ 0x9E3779B97F4A7C15ULL;
    for (const char *c = path + strlen(root); *c; c++) fdrng[fd] = (fdrng[fd] ^ (unsigned char)*c) * 0x100000001b3ULL;
    if (!(flags & O_DIRECTORY)) {
        c_opens++;
        if (epipe_seen) c_opens_after_epipe++;
    }
    pthread_mutex_unlock(&mu);
}

static int open_fault(const char *path0, int flags) {
    char abuf[2048];
    const char *path = absolute(path0, abuf, sizeof abuf);
    if (flags & O_DIRECTORY) return 0;
    int i = match_rule(open_rules, n_open, path);
    if (i < 0) return 0;
    pthread_mutex_lock(&mu); c_open_err++; pthread_mutex_unlock(&mu);
    errno = open_rules[i].err;
    return 1;
}

#define OPEN_BODY(realfn, ...)                                  \
    init();                                                     \
    mode_t mode = 0;                                            \
    if (flags & (O_CREAT | O_TMPFILE)) { va_list ap; va_start(ap, flags); mode = va_arg(ap, mode_t); va_end(ap); } \
    if (open_fault(path, flags)) return -1;                     \
    int fd = realfn(__VA_ARGS__, flags, mode);                  \
    note_open(fd, path, flags);                                 \
    return fd;

int open(const char *path, int flags, ...) { OPEN_BODY(real_open, path) }
int open64(const char *path, int flags, ...) { OPEN_BODY(real_open64, path) }
int openat(int dirfd, const char *path, int flags, ...) { OPEN_BODY(real_openat, dirfd, path) }
int openat64(int dirfd, const char *path, int flags, ...) { OPEN_BODY(real_openat64, dirfd, path) }

/* stat by name */
static int stat_fault(const char *path0) {
    if (!path0 || !path0[0]) return 0;
    init();
    if (!n_stat) return 0;
    char abuf[2048];
    const char *path = absolute(path0, abuf, sizeof abuf);
    int i = match_rule(stat_rules, n_stat, path);
    if (i < 0) return 0;
    pthread_mutex_lock(&mu); c_stat_err++; pthread_mutex_unlock(&mu);
    errno = stat_rules[i].err;
    return 1;
}

/* stat of an open descriptor */
static int fstat_fault(int fd) {
    init();
    if (!n_fstat || fd < 0 || fd >= MAXFD) return 0;
    pthread_mutex_lock(&mu);
    const char *p = fdpath[fd];
    int hit = -1;
    if (p) for (int i = 0; i < n_fstat; i++) if (ends_with(p, fstat_rules[i].suffix)) hit = i;
    if (hit >= 0) c_fstat_err++;
    pthread_mutex_unlock(&mu);
    if (hit < 0) return 0;
    errno = fstat_rules[hit].err;
    return 1;
}

/* by how many bytes the reported size of this descriptor is to be reduced (0: not at all) */
static long size_cut(int fd) {
    if (!n_fsize || fd < 0 || fd >= MAXFD) return 0;
    long cut = 0;
    pthread_mutex_lock(&mu);
    const char *p = fdpath[fd];
    if (p) for (int i = 0; i < n_fsize; i++) if (ends_with(p, fsize_rules[i].suffix)) cut = fsize_rules[i].err;
    if (cut) c_fsize++;
    pthread_mutex_unlock(&mu);
    return cut;
}

int fstat(int fd, struct stat *buf) {
    static int (*real)(int, struct stat *);
    if (!real) real = dlsym(RTLD_NEXT, "fstat");
    if (fstat_fault(fd)) return -1;
    int r = real(fd, buf);
    long cut = r == 0 ? size_cut(fd) : 0;
    if (cut && S_ISREG(buf->st_mode)) buf->st_size = buf->st_size > cut ? buf->st_size - cut : 1;
    return r;
}
int fstat64(int fd, struct stat64 *buf) {
    static int (*real)(int, struct stat64 *);
    if (!real) real = dlsym(RTLD_NEXT, "fstat64");
    if (fstat_fault(fd)) return -1;
    int r = real(fd, buf);
    long cut = r == 0 ? size_cut(fd) : 0;
    if (cut && S_ISREG(buf->st_mode)) buf->st_size = buf->st_size > cut ? buf->st_size - cut : 1;
    return r;
}

struct statx;
int statx(int dirfd, const char *path, int flags, unsigned int mask, struct statx *buf) {
    static int (*real)(int, const char *, int, unsigned int, struct statx *);
    if (!real) real = dlsym(RTLD_NEXT, "statx");
    /* (Rust's std probes for statx support with a NULL path and expects EFAULT; the header
     * declares the argument nonnull, so the test goes through a volatile copy) */
    const char *volatile p = path;
    if (p && !p[0] && fstat_fault(dirfd)) return -1;
    if (p && stat_fault(p)) return -1;
    int r = real(dirfd, path, flags, mask, buf);
    if (r == 0 && p && !p[0]) {
        long cut = size_cut(dirfd);
        /* struct statx: stx_size is the u64 at byte offset 40 (stable kernel ABI) */
        if (cut) {
            uint64_t *sz = (uint64_t *)((char *)buf + 40);
            *sz = *sz > (uint64_t)cut ? *sz - (uint64_t)cut : 1;
        }
    }
    return r;
}
int stat(const char *path, struct stat *buf) {
    static int (*real)(const char *, struct stat *);
    if (!real) real = dlsym(RTLD_NEXT, "stat");
    if (stat_fault(path)) return -1;
    return real(path, buf);
}
int lstat(const char *path, struct stat *buf) {
    static int (*real)(const char *, struct stat *);
    if (!real) real = dlsym(RTLD_NEXT, "lstat");
    if (stat_fault(path)) return -1;
    return real(path, buf);
}
int stat64(const char *path, struct stat64 *buf) {
    static int (*real)(const char *, struct stat64 *);
    if (!real) real = dlsym(RTLD_NEXT, "stat64");
    if (stat_fault(path)) return -1;
    return real(path, buf);
}
int lstat64(const char *path, struct stat64 *buf) {
    static int (*real)(const char *, struct stat64 *);
    if (!real) real = dlsym(RTLD_NEXT, "lstat64");
    if (stat_fault(path)) return -1;
    return real(path, buf);
}
int fstatat(int dirfd, const char *path, struct stat *buf, int flags) {
    static int (*real)(int, const char *, struct stat *, int);
    if (!real) real = dlsym(RTLD_NEXT, "fstatat");
    if (stat_fault(path)) return -1;
    return real(dirfd, path, buf, flags);
}
int fstatat64(int dirfd, const char *path, struct stat64 *buf, int flags) {
    static int (*real)(int, const char *, struct stat64 *, int);
    if (!real) real = dlsym(RTLD_NEXT, "fstatat64");
    if (stat_fault(path)) return -1;
    return real(dirfd, path, buf, flags);
}

DIR *opendir(const char *path0) {
    init();
    char abuf[2048];
    const char *path = absolute(path0, abuf, sizeof abuf);
    int i = match_rule(opendir_rules, n_opendir, path);
    if (i >= 0) {
        pthread_mutex_lock(&mu); c_opendir_err++; pthread_mutex_unlock(&mu);
        errno = opendir_rules[i].err;
        return NULL;
    }
    DIR *d = real_opendir(path0);
    if (d && n_readdir && under_root(path)) {
        pthread_mutex_lock(&mu);
        for (int i = 0; i < MAXDIRS; i++)
            if (!dir_ptr[i]) { dir_ptr[i] = d; dir_path[i] = strdup(path); dir_reads[i] = 0; break; }
        pthread_mutex_unlock(&mu);
    }
    return d;
}

static int readdir_fault(DIR *d) {
    if (!n_readdir) return 0;
    int hit = 0, err = 0;
    pthread_mutex_lock(&mu);
    for (int i = 0; i < MAXDIRS; i++) {
        if (dir_ptr[i] != d) continue;
        long idx = dir_reads[i]++;
        for (int r = 0; r < n_readdir; r++)
            if (readdir_rules[r].idx == idx && ends_with(dir_path[i], readdir_rules[r].suffix)) { hit = 1; err = readdir_rules[r].err; }
        break;
    }
    if (hit) c_readdir_err++;
    pthread_mutex_unlock(&mu);
    if (hit) errno = err;
    return hit;
}

struct dirent *readdir(DIR *d) {
    static struct dirent *(*real)(DIR *);
    if (!real) real = dlsym(RTLD_NEXT, "readdir");
    init();
    if (readdir_fault(d)) return NULL;
    return real(d);
}
struct dirent64 *readdir64(DIR *d) {
    static struct dirent64 *(*real)(DIR *);
    if (!real) real = dlsym(RTLD_NEXT, "readdir64");
    init();
    if (readdir_fault(d)) return NULL;
    return real(d);
}
int closedir(DIR *d) {
    static int (*real)(DIR *);
    if (!real) real = dlsym(RTLD_NEXT, "closedir");
    pthread_mutex_lock(&mu);
    for (int i = 0; i < MAXDIRS; i++)
        if (dir_ptr[i] == d) { dir_ptr[i] = NULL; free(dir_path[i]); dir_path[i] = NULL; }
    pthread_mutex_unlock(&mu);
    return real(d);
}

/* mmap of a file under the root (forwarded with a raw system call: the dynamic linker and
 * the allocator call mmap long before this library is initialised) */
void *mmap(void *addr, size_t len, int prot, int flags, int fd, off_t off) {
    if (inited && n_mmap && fd >= 0 && fd < MAXFD && !(flags & MAP_ANONYMOUS)) {
        pthread_mutex_lock(&mu);
        const char *p = fdpath[fd];
        int hit = -1;
        if (p) for (int i = 0; i < n_mmap; i++) if (ends_with(p, mmap_rules[i].suffix)) hit = i;
        if (hit >= 0) c_mmap_err++;
        pthread_mutex_unlock(&mu);
        if (hit >= 0) { errno = mmap_rules[hit].err; return MAP_FAILED; }
    }
    return (void *)syscall(SYS_mmap, addr, len, prot, flags, fd, off);
}
void *mmap64(void *addr, size_t len, int prot, int flags, int fd, off_t off) {
    return mmap(addr, len, prot, flags, fd, off);
}

int close(int fd) {
    init();
    if (fd >= 0 && fd < MAXFD) {
        pthread_mutex_lock(&mu);
        free(fdpath[fd]); fdpath[fd] = NULL;
        fdfifo[fd] = 0; fifo_reads[fd] = 0;
        pthread_mutex_unlock(&mu);
    }
    return real_close(fd);
}

ssize_t read(int fd, void *buf, size_t n) {
    init();
    if (fd >= 0 && fd < MAXFD && fdpath[fd]) {
        pthread_mutex_lock(&mu);
        const char *p = fdpath[fd];
        long idx = p ? fdreads[fd]++ : -1;
        int err = 0;
        size_t lim = n;
        if (p) {
            for (int i = 0; i < n_read; i++)
                if (read_rules[i].idx == idx && ends_with(p, read_rules[i].suffix)) err = read_rules[i].err;
            if (err == EINTR) c_read_eintr++; else if (err) c_read_err++;
            int eof = 0;
            for (int i = 0; i < n_eof; i++)
                if (idx >= eof_rules[i].idx && ends_with(p, eof_rules[i].suffix)) eof = 1;
            if (eof && !err) { if (idx == 0 || 1) c_read_eof++; pthread_mutex_unlock(&mu); return 0; }
            if (!err && frag_on && n > 1) {
                uint64_t x = fdrng[fd];
                x ^= x << 13; x ^= x >> 7; x ^= x << 17;
                fdrng[fd] = x;
                lim = 1 + (size_t)(x % 97);
                if (lim > n) lim = n; else c_read_frag++;
            }
        }
        pthread_mutex_unlock(&mu);
        if (err) { errno = err; return -1; }
        return real_read(fd, buf, lim);
    }
    if ((n_pipe_eintr || pipe_frag_on) && fd >= 0 && fd < MAXFD) {
        if (fdfifo[fd] == 0) {
            struct stat st;
            static int (*real_fstat)(int, struct stat *);
            if (!real_fstat) real_fstat = dlsym(RTLD_NEXT, "fstat");
            int fifo = real_fstat(fd, &st) == 0 && S_ISFIFO(st.st_mode);
            pthread_mutex_lock(&mu);
            fdfifo[fd] = fifo ? 1 : -1; fifo_reads[fd] = 0;
            fifo_rng[fd] = (pipe_frag_seed ^ 0x9E3779B97F4A7C15ULL) * (uint64_t)(fd + 1) | 1;
            pthread_mutex_unlock(&mu);
        }
        if (fdfifo[fd] == 1) {
            pthread_mutex_lock(&mu);
            long idx = fifo_reads[fd]++;
            int hit = 0;
            for (int i = 0; i < n_pipe_eintr; i++) if (pipe_eintr_at[i] == idx) hit = 1;
            size_t lim = n;
            if (hit) c_pipe_eintr++;
            else if (pipe_frag_on && n > 1) {
                uint64_t x = fifo_rng[fd];
                x ^= x << 13; x ^= x >> 7; x ^= x << 17;
                fifo_rng[fd] = x;
                lim = 1 + (size_t)(x % 97);
                if (lim > n) lim = n; else c_pipe_frag++;
            }
            pthread_mutex_unlock(&mu);
            if (hit) { errno = EINTR; return -1; }
            return real_read(fd, buf, lim);
        }
    }
    return real_read(fd, buf, n);
}

static ssize_t stdout_write(const void *buf, size_t n) {
    pthread_mutex_lock(&mu);
    if (out_frag_on || n_out_eintr) {
        long idx = out_writes++;
        for (int i = 0; i < n_out_eintr; i++)
            if (out_eintr_at[i] == idx) { c_out_eintr++; pthread_mutex_unlock(&mu); errno = EINTR; return -1; }
        if (out_frag_on && n > 1) {
            uint64_t x = out_frag_rng;
            x ^= x << 13; x ^= x >> 7; x ^= x << 17;
            out_frag_rng = x;
            size_t lim = 1 + (size_t)(x % 97);
            if (lim < n) { n = lim; c_out_frag++; }
        }
    }
    if (stdout_budget < 0) { pthread_mutex_unlock(&mu); return real_write(1, buf, n); }
    long left = stdout_budget - stdout_written;
    if (left <= 0 && n > 0) {
        c_epipe++; epipe_seen = 1;
        pthread_mutex_unlock(&mu);
        errno = EPIPE;
        return -1;
    }
    size_t m = n;
    if ((long)m > left) { m = (size_t)left; c_short_write++; }
    pthread_mutex_unlock(&mu);
    ssize_t w = real_write(1, buf, m);
    if (w > 0) { pthread_mutex_lock(&mu); stdout_written += w; pthread_mutex_unlock(&mu); }
    return w;
}

ssize_t write(int fd, const void *buf, size_t n) {
    init();
    if (fd == 1) return stdout_write(buf, n);
    return real_write(fd, buf, n);
}

ssize_t writev(int fd, const struct iovec *iov, int cnt) {
    init();
    /* one write per segment keeps the budget arithmetic exact */
    ssize_t total = 0;
    for (int i = 0; i < cnt; i++) {
        if (iov[i].iov_len == 0) continue;
        ssize_t w = write(fd, iov[i].iov_base, iov[i].iov_len);
        if (w < 0) return total > 0 ? total : -1;
        total += w;
        if ((size_t)w < iov[i].iov_len) break;
    }
    return total;
}

/* In-process use (engine E2 `walksim` preloads the shim into its worker
 * processes): replace the plan between two simulated runs, and read back how
 * often stat-by-name faults fired since then. Not used inside rg. */
void faultshim_set(const char *new_root, const char *plan) {
    init();
    pthread_mutex_lock(&mu);
    n_open = n_opendir = n_read = n_eof = n_stat = n_fstat = n_pipe_eintr = 0;
    n_mmap = n_readdir = n_fsize = n_out_eintr = 0;
    out_frag_on = 0;
    for (int i = 0; i < MAXDIRS; i++) { dir_ptr[i] = NULL; free(dir_path[i]); dir_path[i] = NULL; dir_reads[i] = 0; }
    frag_on = pipe_frag_on = 0;
    stdout_budget = -1;
    c_stat_err = c_open_err = c_opendir_err = c_readdir_err = 0;
    root[0] = 0;
    if (new_root) strncpy(root, new_root, sizeof root - 1);
    if (!getcwd(cwd, sizeof cwd)) cwd[0] = 0;
    if (plan && plan[0]) parse_plan(plan);
    pthread_mutex_unlock(&mu);
}

long faultshim_stat_faults(void) { return c_stat_err; }
long faultshim_dir_faults(void) { return c_opendir_err + c_readdir_err; }
