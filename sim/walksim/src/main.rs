//! E2 `walksim` — in-process schedule simulator for the parallel directory
//! walker (properties C06 and C07).
//!
//! Real code: the whole `ignore` crate (WalkParallel, Worker, Stack,
//! crossbeam-deque, the serial Walk used as reference) on a real tmpfs tree.
//! Simulated: which worker runs at every hooked synchronisation point, the
//! idle sleep (virtual clock), the order of directory entries and injected
//! directory-entry errors.

mod tree;

use ignore::{WalkBuilder, WalkState};
use serde_json::{json, Value};
use simcore::*;
use std::collections::{BTreeMap, BTreeSet};
use std::io::Write;
use std::path::{Path, PathBuf};
use std::sync::{Arc, Mutex};
use tree::*;
use vsched::{Config as SchedConfig, Outcome, Strategy};

/// One simulated run: everything below is a pure function of it.
#[derive(Clone, Debug)]
pub struct Case {
    pub tree: TreeSpec,
    pub cfg: WalkCfg,
    pub visitor: VisitorScript,
    pub sched_seed: u64,
    pub strategy: Strategy,
    pub replay: Vec<u8>,
    pub strict: bool,
    pub readdir_fault: (u32, u32),
    /// stat() by name of this directory (relative path) fails while the walk runs
    /// (syscall shim preloaded into this process); only with same_file_system.
    pub stat_fault: Option<String>,
    /// opendir() of this directory (relative path) fails while the walk runs: the directory is
    /// reported, followed by an error, and not listed.
    pub opendir_fault: Option<String>,
}

#[derive(Clone, Debug, Default)]
pub struct VisitorScript {
    /// Answer Quit at this (global) visit index.
    pub quit_at: Option<usize>,
    /// Answer Skip for directories with these relative paths.
    pub skip: BTreeSet<String>,
    /// Answer Skip (documented as having no effect on non-directories) when
    /// an error is reported instead of an entry.
    pub skip_on_error: bool,
    /// Answer Quit at `quit_at` and at every later visit (so several workers answer Quit).
    pub quit_sticky: bool,
}

#[derive(Clone, Debug, PartialEq, Eq, PartialOrd, Ord)]
pub enum Seen {
    Ok(String),
    /// Error with a coarse kind ("loop", "io", ...) and the path it names, if any.
    Err(String, String),
}

#[derive(Debug)]
pub struct RunResult {
    pub outcome: Outcome,
    pub seen: Vec<Seen>,
    pub panicked: bool,
    pub dup_during_run: Option<String>,
    pub under_skipped: Option<String>,
    /// How often the injected stat-by-name fault fired during the walk.
    pub stat_faults: u64,
    /// How often an injected opendir / readdir fault fired (both walkers together).
    pub dir_faults: u64,
}

/// The syscall shim (sim/faultshim), preloaded into this process so that a stat() by name
/// can be made to fail during one walk.
pub mod shim {
    use std::ffi::CString;
    use std::path::Path;
    pub const PATH: &str = "/verif/sim/faultshim/faultshim.so";
    type SetFn = unsafe extern "C" fn(*const libc::c_char, *const libc::c_char);
    type CntFn = unsafe extern "C" fn() -> libc::c_long;
    fn sym(name: &str) -> *mut libc::c_void {
        let c = CString::new(name).unwrap();
        unsafe { libc::dlsym(libc::RTLD_DEFAULT, c.as_ptr()) }
    }
    pub fn available() -> bool {
        !sym("faultshim_set").is_null()
    }
    pub fn set(root: &Path, plan: &str) {
        let f = sym("faultshim_set");
        if f.is_null() {
            return;
        }
        let r = CString::new(root.to_str().unwrap()).unwrap();
        let p = CString::new(plan).unwrap();
        unsafe { std::mem::transmute::<*mut libc::c_void, SetFn>(f)(r.as_ptr(), p.as_ptr()) }
    }
    pub fn dir_faults() -> u64 {
        let f = sym("faultshim_dir_faults");
        if f.is_null() {
            return 0;
        }
        unsafe { std::mem::transmute::<*mut libc::c_void, CntFn>(f)() as u64 }
    }
    pub fn stat_faults() -> u64 {
        let f = sym("faultshim_stat_faults");
        if f.is_null() {
            return 0;
        }
        unsafe { std::mem::transmute::<*mut libc::c_void, CntFn>(f)() as u64 }
    }
}

fn rel(root: &Path, p: &Path) -> String {
    // (lexically normalised: "./" and "<dir>/.." spellings of a root do not count as differences)
    match p.strip_prefix(root) {
        Ok(r) => {
            let mut parts: Vec<String> = vec![];
            for c in r.components() {
                match c {
                    std::path::Component::CurDir => {}
                    std::path::Component::ParentDir => {
                        parts.pop();
                    }
                    other => parts.push(other.as_os_str().to_string_lossy().into_owned()),
                }
            }
            parts.join("/")
        }
        Err(_) => p.to_string_lossy().into_owned(),
    }
}

fn classify_err(base: &Path, e: &ignore::Error) -> Seen {
    fn kind(e: &ignore::Error) -> (&'static str, Option<PathBuf>) {
        match e {
            ignore::Error::Partial(v) => v.first().map(kind).unwrap_or(("partial", None)),
            ignore::Error::WithLineNumber { err, .. } => kind(err),
            ignore::Error::WithPath { path, err } => {
                let (k, p) = kind(err);
                (k, p.or_else(|| Some(path.clone())))
            }
            ignore::Error::WithDepth { err, .. } => kind(err),
            ignore::Error::Loop { child, .. } => ("loop", Some(child.clone())),
            ignore::Error::Io(_) => ("io", None),
            ignore::Error::Glob { .. } => ("glob", None),
            ignore::Error::UnrecognizedFileType(_) => ("type", None),
            ignore::Error::InvalidDefinition => ("def", None),
        }
    }
    let (k, p) = kind(e);
    Seen::Err(k.to_string(), p.map(|p| rel(base, &p)).unwrap_or_default())
}

/// One reported error may carry several complaints (one per malformed ignore file of the
/// ancestors): each of them counts.
fn classify_errs(base: &Path, e: &ignore::Error) -> Vec<Seen> {
    fn parts<'a>(e: &'a ignore::Error, out: &mut Vec<&'a ignore::Error>) {
        match e {
            ignore::Error::Partial(v) if v.len() > 1 => v.iter().for_each(|x| parts(x, out)),
            ignore::Error::WithDepth { err, .. } if matches!(**err, ignore::Error::Partial(ref v) if v.len() > 1) => parts(err, out),
            _ => out.push(e),
        }
    }
    let mut v = vec![];
    parts(e, &mut v);
    v.into_iter().map(|x| classify_err(base, x)).collect()
}

fn builder(base: &Path, tree: &TreeSpec, cfg: &WalkCfg) -> WalkBuilder {
    // "-" stands for standard input: a root that is reported as an entry of its own and is
    // never opened or examined by the walker
    let rp = |r: &String| {
        if r == "-" {
            return PathBuf::from("-");
        }
        let plain_dir = std::fs::symlink_metadata(base.join(r)).map(|m| m.is_dir()).unwrap_or(false);
        let (dir, name) = match r.rfind('/') {
            Some(i) => (&r[..i + 1], &r[i + 1..]),
            None => ("", r.as_str()),
        };
        match cfg.root_spelling {
            1 => PathBuf::from(format!("{}/{dir}./{name}", base.display())),
            2 if plain_dir => PathBuf::from(format!("{}/{r}/", base.display())),
            3 if plain_dir => PathBuf::from(format!("{}/{r}/../{name}", base.display())),
            _ => base.join(r),
        }
    };
    let mut roots = tree.roots.iter();
    let mut b = WalkBuilder::new(rp(roots.next().unwrap()));
    for r in roots {
        b.add(rp(r));
    }
    b.standard_filters(false);
    b.hidden(cfg.hidden);
    b.ignore(cfg.ignore_files);
    b.git_ignore(cfg.ignore_files);
    if cfg.custom_ignore {
        b.add_custom_ignore_filename(".myignore");
    }
    if cfg.sort_names {
        b.sort_by_file_name(|a, b| a.cmp(b));
    }
    if let Some(so) = &cfg.skip_stdout {
        // the builder looks at what standard output is when skip_stdout is called: for that
        // moment descriptor 1 is the chosen file of the tree (the harness's own output is
        // written long after it has been put back)
        use std::io::Write;
        let _ = std::io::stdout().flush();
        let c = std::ffi::CString::new(base.join(so).as_os_str().to_string_lossy().as_bytes()).unwrap();
        unsafe {
            let saved = libc::dup(1);
            let fd = libc::open(c.as_ptr(), libc::O_WRONLY | libc::O_APPEND);
            if saved >= 0 && fd >= 0 {
                libc::dup2(fd, 1);
                b.skip_stdout(true);
                libc::dup2(saved, 1);
            }
            if fd >= 0 {
                libc::close(fd);
            }
            if saved >= 0 {
                libc::close(saved);
            }
        }
    }
    b.require_git(false);
    b.parents(cfg.parents);
    b.max_depth(cfg.max_depth);
    b.max_filesize(cfg.max_filesize);
    b.follow_links(cfg.follow_links);
    b.same_file_system(cfg.same_file_system);
    b.threads(cfg.threads);
    if let Some(ch) = cfg.filter_char {
        b.filter_entry(move |e| !e.file_name().to_string_lossy().contains(ch));
    }
    if let Some(g) = &cfg.override_glob {
        let mut ob = ignore::overrides::OverrideBuilder::new(base);
        ob.add(g).expect("override glob");
        b.overrides(ob.build().expect("overrides"));
    }
    if cfg.type_x {
        let mut tb = ignore::types::TypesBuilder::new();
        tb.add("xt", "*.x").expect("type");
        tb.select("xt");
        b.types(tb.build().expect("types"));
    }
    b
}

/// Runs the parallel walker under the scheduler.
pub fn run_parallel(base: &Path, case: &Case) -> RunResult {
    let b = builder(base, &case.tree, &case.cfg);
    let n_entries = case.tree.nodes.len() as u64 + 2;
    vsched::begin(SchedConfig {
        seed: case.sched_seed,
        strategy: case.strategy,
        replay: case.replay.clone(),
        strict_replay: case.strict,
        // generous: per-entry work plus three times the analytic bound on the
        // termination phase (which grows with the cube of the worker count)
        max_steps: 4_000 + 600 * n_entries * case.cfg.threads as u64 + 3 * liveness_bound(case.cfg.threads as u64),
        expected_len: 30 + 8 * n_entries,
        readdir_permute: true,
        readdir_fault: case.readdir_fault,
    });
    struct Shared {
        seen: Vec<Seen>,
        set: BTreeSet<String>,
        skipped: Vec<String>,
        dup: Option<String>,
        under: Option<String>,
    }
    let shared = Arc::new(Mutex::new(Shared { seen: vec![], set: BTreeSet::new(), skipped: vec![], dup: None, under: None }));
    let script = case.visitor.clone();
    let basep = base.to_path_buf();
    let res = std::panic::catch_unwind(std::panic::AssertUnwindSafe(|| {
        b.build_parallel().run(|| {
            let shared = shared.clone();
            let script = script.clone();
            let basep = basep.clone();
            Box::new(move |ent| {
                // The visit itself is a scheduling point; everything after it
                // runs under the baton, so these checks cannot race.
                vsched::user_yield(1);
                let mut sh = shared.lock().unwrap_or_else(|e| e.into_inner());
                let idx = sh.seen.len();
                let mut state = WalkState::Continue;
                match ent {
                    Ok(e) => {
                        let r = rel(&basep, e.path());
                        // Several roots may overlap; identity is (root-relative path as reported).
                        if !sh.set.insert(r.clone()) {
                            sh.dup.get_or_insert(r.clone());
                        }
                        if let Some(s) = sh.skipped.iter().find(|s| r.starts_with(&format!("{s}/"))) {
                            let s = s.clone();
                            sh.under.get_or_insert(format!("{r} (beneath skipped {s})"));
                        }
                        if script.skip.contains(&r) {
                            sh.skipped.push(r.clone());
                            state = WalkState::Skip;
                        }
                        sh.seen.push(Seen::Ok(r));
                    }
                    Err(err) => {
                        sh.seen.extend(classify_errs(&basep, &err));
                        if script.skip_on_error {
                            state = WalkState::Skip;
                        }
                    }
                }
                if script.quit_at == Some(idx) || (script.quit_sticky && script.quit_at.map_or(false, |q| idx >= q)) {
                    state = WalkState::Quit;
                }
                state
            })
        });
    }));
    let outcome = vsched::end().unwrap_or_default();
    let sh = shared.lock().unwrap_or_else(|e| e.into_inner());
    RunResult {
        outcome,
        seen: sh.seen.clone(),
        panicked: res.is_err(),
        dup_during_run: sh.dup.clone(),
        under_skipped: sh.under.clone(),
        stat_faults: 0,
        dir_faults: 0,
    }
}

/// Runs the serial walker (no scheduler involved).
pub fn run_serial(base: &Path, tree: &TreeSpec, cfg: &WalkCfg) -> Vec<Seen> {
    let b = builder(base, tree, cfg);
    let mut out = vec![];
    for ent in b.build() {
        match ent {
            Ok(e) => out.push(Seen::Ok(rel(base, e.path()))),
            Err(err) => out.extend(classify_errs(base, &err)),
        }
    }
    out
}

fn multiset(v: &[Seen]) -> BTreeMap<Seen, usize> {
    let mut m = BTreeMap::new();
    for s in v {
        *m.entry(s.clone()).or_insert(0) += 1;
    }
    // A malformed line in an ignore file is reported when the file is compiled; the matchers of
    // the roots' ancestors are cached, so with several roots how often one file is compiled (once,
    // or once per root) depends on which walker runs and in which order. The property is about
    // entries: that the complaint is made counts, how many times does not.
    for (k, n) in m.iter_mut() {
        if matches!(k, Seen::Err(kind, _) if kind == "glob") {
            *n = 1;
        }
    }
    m
}

fn diff_multisets(a: &BTreeMap<Seen, usize>, b: &BTreeMap<Seen, usize>, an: &str, bn: &str) -> Option<String> {
    let mut msgs = vec![];
    for (k, &n) in a {
        let m = b.get(k).copied().unwrap_or(0);
        if n != m {
            msgs.push(format!("{k:?}: {an}={n} {bn}={m}"));
        }
    }
    for (k, &m) in b {
        if !a.contains_key(k) {
            msgs.push(format!("{k:?}: {an}=0 {bn}={m}"));
        }
    }
    if msgs.is_empty() {
        None
    } else {
        msgs.truncate(6);
        Some(msgs.join("; "))
    }
}

// ---------------------------------------------------------------------------
// Case generation

fn gen_strategy(rng: &mut Rng) -> Strategy {
    match rng.below(10) {
        0..=3 => Strategy::Random,
        4..=6 => Strategy::Pct(rng.below(5) as u32),
        7..=8 => Strategy::Sticky(8 + rng.below(8) as u32),
        _ => Strategy::RoundRobin,
    }
}

fn gen_case_c07(sub: u64, thorough: bool) -> Case {
    let mut rng = Rng::new(sub);
    let tree = gen_tree(&mut rng.fork("tree"), TreeMode::Plain);
    let threads = if thorough && rng.chance(1, 5) { 5 + rng.below(4) } else if rng.chance(1, 12) { 1 } else { 2 + rng.below(3) };
    let mut cfg = WalkCfg { threads, ..WalkCfg::default() };
    let mut tree = tree;
    if rng.chance(1, 6) {
        // a further root on another file system, with same_file_system on: every
        // root has its own device, so still nothing may be lost whoever steals what
        tree.nodes.push(Node { path: "zx".into(), kind: NodeKind::XdevLink });
        let at = rng.below(tree.roots.len() + 1);
        tree.roots.insert(at, "zx".into());
        cfg.same_file_system = true;
    }
    if rng.chance(1, 10) {
        // standard input among the roots (with or without same_file_system)
        let at = rng.below(tree.roots.len() + 1);
        tree.roots.insert(at, "-".into());
        cfg.same_file_system = cfg.same_file_system || rng.chance(1, 2);
    }
    // part D: symlinks to files, to directories and to ancestors (cycles), followed or not:
    // whoever steals what, a cycle is cut exactly where the independent listing cuts it and
    // nothing is handed out twice
    let mut linked = false;
    if rng.chance(1, 7) {
        let dirs: Vec<String> = tree.nodes.iter().filter(|n| n.kind == NodeKind::Dir).map(|n| n.path.clone()).collect();
        let all: Vec<String> = tree.nodes.iter().map(|n| n.path.clone()).collect();
        for i in 0..1 + rng.below(3) {
            if dirs.is_empty() {
                break;
            }
            let parent = dirs[rng.below(dirs.len())].clone();
            let target = if rng.chance(1, 2) {
                // an ancestor of the link (or the directory holding it): a cycle
                let mut anc = parent.clone();
                for _ in 0..rng.below(3) {
                    if let Some(j) = anc.rfind('/') {
                        anc.truncate(j);
                    }
                }
                anc
            } else {
                all[rng.below(all.len())].clone()
            };
            tree.nodes.push(Node { path: format!("{parent}/zl{i}"), kind: NodeKind::Link(target) });
            linked = true;
        }
        if rng.chance(1, 3) && !dirs.is_empty() {
            // a socket, and a link to it: handed out like any other entry, followed or not
            let sp = format!("{}/zsock", dirs[rng.below(dirs.len())]);
            tree.nodes.push(Node { path: sp.clone(), kind: NodeKind::Socket });
            tree.nodes.push(Node { path: format!("{}/zlsock", dirs[rng.below(dirs.len())]), kind: NodeKind::Link(sp) });
        }
        cfg.follow_links = rng.chance(3, 4);
        if rng.chance(1, 3) {
            // a size limit: it is about files, also when a directory is reached through a link
            cfg.max_filesize = Some([0u64, 1, 2, 5, 100][rng.below(5)]);
        }
        if rng.chance(1, 4) {
            cfg.max_depth = Some(1 + rng.below(4));
        }
    }
    let n_expected = tree.nodes.len() + tree.roots.len();
    let mut visitor = VisitorScript::default();
    match rng.below(if linked { 8 } else { 10 }) {
        0..=4 => {} // part A: always continue
        5..=7 => {
            // part B: quit at some visit index, biased to the ends
            let q = match rng.below(4) {
                0 => 0,
                1 => n_expected.saturating_sub(1),
                _ => rng.below(n_expected.max(1)),
            };
            visitor.quit_at = Some(q);
            visitor.quit_sticky = rng.chance(1, 3);
        }
        _ => {
            // part C: skip a subset of directories - and of files, for which the answer is
            // documented to have no effect
            for n in &tree.nodes {
                if matches!(n.kind, NodeKind::Dir) && rng.chance(1, 3) {
                    visitor.skip.insert(n.path.clone());
                }
                if matches!(n.kind, NodeKind::File(_)) && rng.chance(1, 6) {
                    visitor.skip.insert(n.path.clone());
                }
            }
        }
    }
    Case {
        tree,
        cfg,
        visitor,
        sched_seed: rng.next(),
        strategy: gen_strategy(&mut rng),
        replay: vec![],
        strict: false,
        readdir_fault: (0, 1),
        stat_fault: None,
        opendir_fault: None,
    }
    .with_faults_unless(linked, &mut rng)
}

impl Case {
    fn with_faults_unless(self, no: bool, rng: &mut Rng) -> Case {
        if no {
            self
        } else {
            self.with_faults(rng)
        }
    }

    fn with_faults(mut self, rng: &mut Rng) -> Case {
        if rng.chance(1, 8) {
            self.readdir_fault = (1, 6);
            self.visitor.skip_on_error = rng.chance(1, 2);
        } else if rng.chance(1, 10) && shim::available() {
            // a size limit is set and the stat of one listed file fails: its size is unknown,
            // the file is handed out all the same
            let files: Vec<&Node> = self.tree.nodes.iter().filter(|n| matches!(n.kind, NodeKind::File(_)) && !self.tree.roots.contains(&n.path)).collect();
            if !files.is_empty() {
                self.stat_fault = Some(files[rng.below(files.len())].path.clone());
                self.cfg.max_filesize = Some(100);
            }
        } else if rng.chance(1, 8) && shim::available() {
            // the device check of one directory fails (same_file_system): the directory is
            // reported together with an error and not descended into; nothing else is lost
            let dirs: Vec<&Node> = self.tree.nodes.iter().filter(|n| n.kind == NodeKind::Dir && !self.tree.roots.contains(&n.path)).collect();
            if !dirs.is_empty() {
                self.stat_fault = Some(dirs[rng.below(dirs.len())].path.clone());
                self.cfg.same_file_system = true;
                self.visitor.skip_on_error = rng.chance(1, 2);
            }
        }
        self
    }
}

fn gen_case_c06(sub: u64, thorough: bool) -> Case {
    let mut rng = Rng::new(sub);
    let mode = match rng.below(4) {
        0 => TreeMode::Plain,
        _ => TreeMode::Rich,
    };
    let tree = gen_tree(&mut rng.fork("tree"), mode);
    let threads = match rng.below(6) {
        0 => 1,
        1..=3 => 2 + rng.below(3),
        4 => 5 + rng.below(4),
        _ => {
            if thorough {
                9 + rng.below(8)
            } else {
                2 + rng.below(7)
            }
        }
    };
    let mut cfg = WalkCfg { threads, ..WalkCfg::default() };
    // swarm: each knob is enabled in a random subset of runs
    if rng.chance(1, 2) {
        cfg.max_depth = Some(rng.below(4));
    }
    if rng.chance(1, 3) {
        cfg.max_filesize = Some([0u64, 1, 2, 5][rng.below(4)]);
    }
    cfg.follow_links = rng.chance(1, 2);
    cfg.same_file_system = rng.chance(1, 3);
    if rng.chance(1, 3) {
        cfg.filter_char = Some(['1', '2', 'x', 'd'][rng.below(4)]);
    }
    cfg.ignore_files = rng.chance(1, 2);
    cfg.hidden = rng.chance(1, 3);
    if rng.chance(1, 5) {
        cfg.override_glob = Some(["!d1/", "*.x", "!f1*", "d0/", "!l*"][rng.below(5)].to_string());
    }
    cfg.type_x = rng.chance(1, 8);
    cfg.sort_names = rng.chance(1, 6);
    if rng.chance(1, 6) {
        cfg.root_spelling = 1 + rng.below(3) as u8;
    }
    if rng.chance(1, 8) {
        // standard output is one of the tree's files (`rg pat > dir/out`)
        let files: Vec<&Node> = tree.nodes.iter().filter(|n| matches!(n.kind, NodeKind::File(_))).collect();
        if !files.is_empty() {
            cfg.skip_stdout = Some(files[rng.below(files.len())].path.clone());
        }
    }
    let mut tree = tree;
    if rng.chance(1, 6) {
        // the tree's ignore files under a custom name that the builder is told about
        cfg.custom_ignore = true;
        for n in tree.nodes.iter_mut() {
            if matches!(n.kind, NodeKind::Text(_)) && (n.path.ends_with("/.ignore") || n.path.ends_with("/.gitignore")) {
                let dir = n.path[..n.path.rfind('/').unwrap()].to_string();
                n.path = format!("{dir}/.myignore");
            }
        }
        let mut seen = BTreeSet::new();
        tree.nodes.retain(|n| seen.insert(n.path.clone()));
    }
    if cfg.ignore_files && rng.chance(1, 3) {
        // ignore files of the roots' ancestors apply; some of them carry a malformed line next to
        // their valid rules (reported as an error, the valid rules still count)
        cfg.parents = true;
        for n in tree.nodes.iter_mut() {
            if let NodeKind::Text(t) = &mut n.kind {
                let dir = n.path[..n.path.rfind('/').unwrap_or(0)].to_string();
                let above_a_root = tree.roots.iter().any(|r| r.starts_with(&format!("{dir}/")));
                if above_a_root && rng.chance(1, 2) {
                    t.push_str("broken[\n");
                }
            }
        }
    }
    // With a size limit both walkers stat every file; that stat failing for one file (it was
    // listed, then cannot be examined) must not make either of them drop it.
    let mut stat_fault = None;
    if cfg.max_filesize.is_some() && rng.chance(1, 3) && shim::available() {
        let files: Vec<&Node> = tree.nodes.iter().filter(|n| matches!(n.kind, NodeKind::File(_)) && !tree.roots.contains(&n.path)).collect();
        if !files.is_empty() {
            stat_fault = Some(files[rng.below(files.len())].path.clone());
        }
    }
    // a directory that was listed cannot be opened: both walkers report it, then the error
    let mut opendir_fault = None;
    if stat_fault.is_none() && rng.chance(1, 8) && shim::available() {
        let dirs: Vec<&Node> = tree.nodes.iter().filter(|n| n.kind == NodeKind::Dir).collect();
        if !dirs.is_empty() {
            let d = dirs[rng.below(dirs.len())].path.clone();
            opendir_fault = Some(if rng.chance(1, 2) { d } else { format!("readdir:{}:{d}", rng.below(4)) });
        }
    }
    let mut cfg = cfg;
    if stat_fault.is_some() || opendir_fault.is_some() {
        // (the syscall shim recognises its victim by the spelling of the path)
        cfg.root_spelling = 0;
    }
    Case {
        tree,
        cfg,
        // answering Skip to a reported error is documented to have no effect, so the comparison
        // with the single-threaded walker (which has no visitor) stands
        visitor: VisitorScript { skip_on_error: rng.chance(1, 3), ..VisitorScript::default() },
        sched_seed: rng.next(),
        strategy: gen_strategy(&mut rng),
        replay: vec![],
        strict: false,
        readdir_fault: (0, 1),
        stat_fault,
        opendir_fault,
    }
}

// ---------------------------------------------------------------------------
// Oracles

#[derive(Clone, Debug)]
pub struct Verdict {
    pub class: String,
    pub summary: String,
}

fn liveness_bound(n: u64) -> u64 {
    // After the last visitor call no work is pushed any more. Every worker
    // then executes at most n+6 non-idle events (quit check, receive scan,
    // deactivate, and after the wake-up: activate, quit check, re-push quit,
    // end); each of those may wake each of the other n-1 idle workers once,
    // and a woken worker spends n+1 steps on a full scan before sleeping again.
    n * (n + 6) * (1 + (n - 1) * (n + 1)) + 16
}

fn check_c07(case: &Case, base: &Path, r: &RunResult) -> Option<Verdict> {
    if let Some(f) = &r.outcome.failure {
        let class = if f.starts_with("HANG") {
            "hang"
        } else if f.starts_with("STEP-BOUND") {
            "no-termination"
        } else if f.starts_with("PANIC") {
            "worker-panic"
        } else {
            "harness"
        };
        return Some(Verdict { class: class.into(), summary: f.clone() });
    }
    if r.panicked {
        return Some(Verdict { class: "panic".into(), summary: "the walk panicked".into() });
    }
    if let Some(d) = &r.dup_during_run {
        return Some(Verdict { class: "duplicate".into(), summary: format!("entry handed out twice: {d}") });
    }
    if let Some(d) = &r.under_skipped {
        return Some(Verdict { class: "skip-ignored".into(), summary: format!("entry visited beneath a skipped directory: {d}") });
    }
    if case.tree.nodes.iter().any(|n| matches!(n.kind, NodeKind::Link(_))) {
        // part D: entries are reached through links, so the plain expectation does not apply; the
        // independent listing (which cuts cycles at the first repeated directory) does
        if case.visitor.quit_at.is_none() && case.visitor.skip.is_empty() {
            let model = multiset(&model_listing(base, &case.tree, &case.cfg));
            if let Some(d) = diff_multisets(&multiset(&r.seen), &model, "parallel", "listing") {
                let class = if r.seen.len() > model.values().sum::<usize>() { "duplicate" } else { "lost-entry" };
                return Some(Verdict { class: format!("{class}:through-links"), summary: format!("the parallel walker differs from the independent listing: {d}") });
            }
        }
        return None;
    }
    let mut expected = expected_plain(base, &case.tree, &case.visitor.skip);
    if let (Some(d), true) = (&case.stat_fault, r.stat_faults > 0 && case.tree.nodes.iter().any(|n| Some(&n.path) == case.stat_fault.as_ref() && n.kind == NodeKind::Dir)) {
        // the directory whose device check failed is still handed out, but not entered
        expected.retain(|p| !p.starts_with(&format!("{d}/")));
    }
    let seen_ok: BTreeSet<String> = r.seen.iter().filter_map(|s| if let Seen::Ok(p) = s { Some(p.clone()) } else { None }).collect();
    let n_err = r.seen.iter().filter(|s| matches!(s, Seen::Err(..))).count();
    if let Some(p) = seen_ok.iter().find(|p| !expected.contains(*p)) {
        return Some(Verdict { class: "unexpected-entry".into(), summary: format!("visited {p}, which is not in the tree") });
    }
    if case.visitor.quit_at.is_none() {
        if case.readdir_fault.0 == 0 {
            if seen_ok != expected {
                let lost: Vec<_> = expected.difference(&seen_ok).take(5).cloned().collect();
                return Some(Verdict { class: "lost-entry".into(), summary: format!("{} entries never visited, e.g. {:?}", expected.len() - seen_ok.len(), lost) });
            }
            // (a stat that fails at the size check leaves the size unknown: no error, the file
            // is handed out; a stat that fails at the device check of a directory is reported)
            let on_dir = case.stat_fault.as_ref().map_or(false, |p| case.tree.nodes.iter().any(|n| &n.path == p && n.kind == NodeKind::Dir));
            let expected_errs = if on_dir { r.stat_faults } else { 0 };
            if n_err as u64 != expected_errs {
                return Some(Verdict { class: if r.stat_faults == 0 { "spurious-error" } else { "fault-not-reported" }.into(), summary: format!("{n_err} errors reported, {} stat faults fired", r.stat_faults) });
            }
        } else {
            // Injected entry errors: every injected fault is reported as an
            // error, and whatever was not hit is still delivered; an entry
            // may only be missing if it lies at or below an errored entry.
            if n_err as u64 != r.outcome.readdir_faults {
                return Some(Verdict {
                    class: "fault-not-reported".into(),
                    summary: format!("{} directory-entry faults injected, {} errors reported", r.outcome.readdir_faults, n_err),
                });
            }
            if r.outcome.readdir_faults == 0 && seen_ok != expected {
                return Some(Verdict { class: "lost-entry".into(), summary: "entries lost although no fault fired".into() });
            }
            // count conservation per directory: children seen + faults in that dir == children expected
            // (a fault replaces exactly one entry). Checked globally over directories whose own visit happened.
            let missing_roots = minimal_missing(&expected, &seen_ok);
            if missing_roots.len() as u64 > r.outcome.readdir_faults {
                return Some(Verdict {
                    class: "lost-entry".into(),
                    summary: format!("{} subtrees missing but only {} faults injected: {:?}", missing_roots.len(), r.outcome.readdir_faults, missing_roots),
                });
            }
        }
        // Bounded liveness in steps after the last visit.
        let n = case.cfg.threads as u64;
        let tail = r.outcome.steps - r.outcome.last_user_step;
        if tail > liveness_bound(n) {
            return Some(Verdict {
                class: "slow-termination".into(),
                summary: format!("{tail} scheduling steps after the last visit (bound {} for {n} workers)", liveness_bound(n)),
            });
        }
    }
    None
}

/// The topmost missing paths (missing entries whose parent is not missing).
fn minimal_missing(expected: &BTreeSet<String>, seen: &BTreeSet<String>) -> Vec<String> {
    let missing: BTreeSet<&String> = expected.difference(seen).collect();
    missing
        .iter()
        .filter(|p| match p.rfind('/') {
            Some(i) => !missing.contains(&p[..i].to_string()),
            None => true,
        })
        .map(|p| (*p).clone())
        .collect()
}

fn check_c06(case: &Case, base: &Path, r: &RunResult, serial: &[Seen]) -> Option<Verdict> {
    if let Some(f) = &r.outcome.failure {
        let class = if f.starts_with("HANG") { "hang" } else if f.starts_with("STEP-BOUND") { "no-termination" } else { "worker-panic" };
        return Some(Verdict { class: class.into(), summary: f.clone() });
    }
    if r.panicked {
        return Some(Verdict { class: "panic".into(), summary: "the walk panicked".into() });
    }
    let pm = multiset(&r.seen);
    let sm = multiset(serial);
    // each exactly once (per root: overlapping roots legitimately repeat)
    let allowed = root_multiplicity(&case.tree);
    for (k, &n) in &pm {
        if let Seen::Ok(p) = k {
            let max = allowed_multiplicity(&allowed, p);
            if n > max {
                return Some(Verdict { class: "duplicate".into(), summary: format!("parallel walker reported {p} {n} times (roots allow {max})") });
            }
        }
    }
    if let Some(d) = diff_multisets(&pm, &sm, "parallel", "serial") {
        let class = classify_c06_diff(case, base, &pm, &sm);
        return Some(Verdict { class, summary: format!("parallel and serial walkers disagree: {d}") });
    }
    // several roots: the walk is the walks of the single roots one after the other (whatever
    // rules are active: this needs no model of them)
    if case.tree.roots.len() > 1 && case.stat_fault.is_none() && case.opendir_fault.is_none() {
        let mut union: Vec<Seen> = vec![];
        for r in &case.tree.roots {
            let one = TreeSpec { roots: vec![r.clone()], ..case.tree.clone() };
            union.extend(run_serial(base, &one, &case.cfg));
        }
        if let Some(d) = diff_multisets(&sm, &multiset(&union), "all-roots-at-once", "root-by-root") {
            return Some(Verdict { class: "several-roots-differ-from-single-roots".into(), summary: format!("the walk over {:?} differs from the walks over each root alone: {d}", case.tree.roots) });
        }
    }
    // independent listing, when no rule-based filtering is active
    let partial_listing = case.opendir_fault.as_ref().map_or(false, |d| d.starts_with("readdir:"));
    if !case.cfg.ignore_files && !case.cfg.hidden && case.cfg.override_glob.is_none() && !case.cfg.type_x && !case.cfg.custom_ignore && !partial_listing {
        let model = model_listing(base, &case.tree, &case.cfg);
        let mm = multiset(&model);
        if let Some(d) = diff_multisets(&sm, &mm, "walkers", "listing") {
            return Some(Verdict { class: "differs-from-listing".into(), summary: format!("both walkers differ from the independent listing: {d}") });
        }
    }
    None
}

/// Names the configuration class of a serial/parallel disagreement, so that a
/// known finding covers only that class.
fn classify_c06_diff(case: &Case, base: &Path, pm: &BTreeMap<Seen, usize>, sm: &BTreeMap<Seen, usize>) -> String {
    // Entries the serial walker reports although the entry filter rejects
    // them, with a size limit configured.
    if let (Some(ch), Some(_)) = (case.cfg.filter_char, case.cfg.max_filesize) {
        let only_serial: Vec<&Seen> = sm.keys().filter(|k| sm.get(*k) != pm.get(*k)).collect();
        let only_par: Vec<&Seen> = pm.keys().filter(|k| !sm.contains_key(*k)).collect();
        let all_filtered_files = only_serial.iter().all(|k| match k {
            Seen::Ok(p) => p.rsplit('/').next().unwrap_or("").contains(ch),
            _ => false,
        });
        if only_par.is_empty() && all_filtered_files {
            return "serial-ignores-filter-with-max-filesize".into();
        }
    }
    // Entries the serial walker loses: the remaining siblings (and their
    // subtrees) of a directory on another file system that a filter or an
    // ignore rule rejected, with same_file_system on.
    if case.cfg.same_file_system && case.cfg.follow_links {
        let only_par: Vec<&Seen> = pm.keys().filter(|k| pm.get(*k) != sm.get(*k)).collect();
        let only_ser: Vec<&Seen> = sm.keys().filter(|k| !pm.contains_key(*k)).collect();
        let canon = |rel: &str| std::fs::canonicalize(base.join(rel)).ok();
        for n in case.tree.nodes.iter().filter(|n| n.kind == NodeKind::XdevLink) {
            let Some(xparent) = canon(&n.path[..n.path.rfind('/').unwrap_or(0)]) else { continue };
            // every lost entry lives in (an alias of) the directory holding the
            // cross-device link, or beneath one of its siblings
            let all_siblings = only_par.iter().all(|k| {
                let p = match k {
                    Seen::Ok(p) => p,
                    Seen::Err(_, p) => p,
                };
                let mut cur = p.as_str();
                while let Some(i) = cur.rfind('/') {
                    cur = &cur[..i];
                    if canon(cur).as_ref() == Some(&xparent) {
                        return true;
                    }
                }
                false
            });
            let link_reported = pm.keys().any(|k| matches!(k, Seen::Ok(p) if p.ends_with(n.path.rsplit('/').next().unwrap()) && canon(&p[..p.rfind('/').unwrap_or(0)]).as_ref() == Some(&xparent)));
            if only_ser.is_empty() && !only_par.is_empty() && all_siblings && !link_reported {
                return "serial-loses-siblings-of-rejected-cross-device-dir".into();
            }
        }
    }
    "serial-parallel-differ".into()
}

// ---------------------------------------------------------------------------
// Replay file <-> case

fn case_to_json(case: &Case) -> Value {
    json!({
        "engine": "walksim",
        "tree": case.tree.to_json(),
        "cfg": case.cfg.to_json(),
        "visitor": { "quit_at": case.visitor.quit_at, "skip": case.visitor.skip.iter().collect::<Vec<_>>(), "skip_on_error": case.visitor.skip_on_error, "quit_sticky": case.visitor.quit_sticky },
        "sched": {
            "seed": case.sched_seed,
            "strategy": case.strategy.name(),
            "choices": case.replay,
            "strict": case.strict,
        },
        "readdir_fault": [case.readdir_fault.0, case.readdir_fault.1],
        "stat_fault": case.stat_fault,
        "opendir_fault": case.opendir_fault,
    })
}

fn case_from_json(v: &Value) -> Case {
    Case {
        tree: TreeSpec::from_json(&v["tree"]),
        cfg: WalkCfg::from_json(&v["cfg"]),
        visitor: VisitorScript {
            quit_at: v["visitor"]["quit_at"].as_u64().map(|x| x as usize),
            skip: v["visitor"]["skip"].as_array().map(|a| a.iter().filter_map(|s| s.as_str().map(String::from)).collect()).unwrap_or_default(),
            skip_on_error: v["visitor"]["skip_on_error"].as_bool().unwrap_or(false),
            quit_sticky: v["visitor"]["quit_sticky"].as_bool().unwrap_or(false),
        },
        sched_seed: v["sched"]["seed"].as_u64().unwrap_or(1),
        strategy: Strategy::parse(v["sched"]["strategy"].as_str().unwrap_or("default")).unwrap_or(Strategy::Default),
        replay: v["sched"]["choices"].as_array().map(|a| a.iter().map(|x| x.as_u64().unwrap_or(0) as u8).collect()).unwrap_or_default(),
        strict: v["sched"]["strict"].as_bool().unwrap_or(false),
        readdir_fault: (v["readdir_fault"][0].as_u64().unwrap_or(0) as u32, v["readdir_fault"][1].as_u64().unwrap_or(1).max(1) as u32),
        stat_fault: v["stat_fault"].as_str().map(String::from),
        opendir_fault: v["opendir_fault"].as_str().map(String::from),
    }
}

fn trace_text(o: &Outcome) -> String {
    let mut s = String::new();
    for (w, site) in o.trace.iter().take(4000) {
        s.push_str(&format!("{}:{} ", w, vsched::site::NAMES.get(*site as usize).copied().unwrap_or("?")));
    }
    s
}

/// Evaluates one case on a freshly materialised tree.
fn evaluate(prop: &str, case: &Case, scratch: &Path) -> (RunResult, Option<Verdict>) {
    let base = scratch.join("r");
    if case.tree.collide {
        // left-over mounts of a run that was aborted
        tree::umount_lazy(&base);
        tree::umount_lazy(&scratch.join("xm"));
    }
    let _ = std::fs::remove_dir_all(&base);
    let xdev = materialise(&base, &case.tree);
    if case.stat_fault.is_some() || case.opendir_fault.is_some() {
        if !shim::available() {
            harness_error("this case injects a syscall fault but the syscall shim is not loaded");
        }
        let mut plan = vec![];
        if let Some(d) = &case.stat_fault {
            plan.push(format!("stat_err=/{d}:13"));
        }
        if let Some(d) = &case.opendir_fault {
            // "readdir:<k>:<path>" = the directory opens, its k-th entry read fails
            match d.strip_prefix("readdir:") {
                Some(rest) => {
                    let (k, path) = rest.split_once(':').unwrap_or(("0", rest));
                    plan.push(format!("readdir_err=/r/{path}:{k}:5"));
                }
                None => plan.push(format!("opendir_err=/r/{d}:13")),
            }
        }
        shim::set(&base, &plan.join(";"));
    }
    let mut r = run_parallel(&base, case);
    if case.stat_fault.is_some() {
        r.stat_faults = shim::stat_faults();
    }
    let v = if prop == "C07" {
        shim::set(&base, "");
        check_c07(case, &base, &r)
    } else {
        // the serial walker meets the same fault; the independent listing does not (it is told
        // which file's size is unknown)
        let serial = run_serial(&base, &case.tree, &case.cfg);
        r.dir_faults = shim::dir_faults();
        shim::set(&base, "");
        tree::SIZE_UNKNOWN.with(|c| *c.borrow_mut() = case.stat_fault.clone());
        tree::UNLISTABLE.with(|c| *c.borrow_mut() = case.opendir_fault.clone().filter(|d| !d.starts_with("readdir:")));
        let v = check_c06(case, &base, &r, &serial);
        tree::SIZE_UNKNOWN.with(|c| *c.borrow_mut() = None);
        tree::UNLISTABLE.with(|c| *c.borrow_mut() = None);
        v
    };
    drop(xdev);
    (r, v)
}

/// Shrinks a failing case while the same violation class persists.
fn minimise(prop: &str, case: &Case, first: &RunResult, class: &str, scratch: &Path) -> Case {
    let same = |c: &Case| -> Option<RunResult> {
        let (r, v) = evaluate(prop, c, scratch);
        match v {
            Some(v) if v.class == class => Some(r),
            _ => None,
        }
    };
    // 1. pin the schedule: replay the recorded choices, complete with the
    //    non-preemptive default policy.
    let mut best = case.clone();
    best.replay = first.outcome.choices.clone();
    best.strategy = Strategy::Default;
    best.strict = false;
    let Some(mut best_run) = same(&best) else { return case.clone() };
    // 2. shortest prefix of choices that still fails (bisect, then linear trim)
    let (mut lo, mut hi) = (0usize, best.replay.len());
    while lo < hi {
        let mid = (lo + hi) / 2;
        let mut c = best.clone();
        c.replay.truncate(mid);
        if same(&c).is_some() {
            hi = mid;
        } else {
            lo = mid + 1;
        }
    }
    {
        let mut c = best.clone();
        c.replay.truncate(hi);
        if let Some(r) = same(&c) {
            best = c;
            best_run = r;
        }
    }
    // 3. drop tree nodes (leaves first) while it still fails; the recorded
    //    choices are then only a prefix hint, so fall back to the seed if needed.
    let mut budget = 60;
    let mut i = best.tree.nodes.len();
    while i > 0 && budget > 0 {
        i -= 1;
        budget -= 1;
        let mut c = best.clone();
        let victim = c.tree.nodes[i].path.clone();
        c.tree.nodes.retain(|n| n.path != victim && !n.path.starts_with(&format!("{victim}/")));
        c.tree.roots.retain(|r| r != &victim && !r.starts_with(&format!("{victim}/")));
        if c.tree.roots.is_empty() {
            continue;
        }
        c.visitor.skip.retain(|s| c.tree.nodes.iter().any(|n| &n.path == s));
        if let Some(r) = same(&c) {
            best = c;
            best_run = r;
            i = i.min(best.tree.nodes.len());
        }
    }
    // 4. fewer workers
    while best.cfg.threads > 2 {
        let mut c = best.clone();
        c.cfg.threads -= 1;
        c.replay.clear();
        c.strategy = case.strategy;
        if let Some(r) = same(&c) {
            c.replay = r.outcome.choices.clone();
            c.strategy = Strategy::Default;
            if let Some(r2) = same(&c) {
                best = c;
                best_run = r2;
                continue;
            }
        }
        break;
    }
    // make the replay exact
    best.replay = best_run.outcome.choices.clone();
    best.strategy = Strategy::Default;
    best
}

// ---------------------------------------------------------------------------
// Worker process: runs a slice of the run indices and prints one JSON line.

fn worker_main(opts: &Opts) {
    let prop = opts.property.clone();
    let (wi, wn) = {
        let s = opts.get("worker").unwrap();
        let (a, b) = s.split_once('/').unwrap();
        (a.parse::<u64>().unwrap(), b.parse::<u64>().unwrap())
    };
    let total: u64 = opts.get("runs").unwrap().parse().unwrap();
    let offset: u64 = opts.get("offset").map(|s| s.parse().unwrap()).unwrap_or(0);
    let label = opts.get("label").unwrap_or("main").to_string();
    let scratch = Scratch::new("walk");
    std::panic::set_hook(Box::new(|_| {}));
    let mut evals = 0u64;
    let mut hashes: BTreeSet<u64> = BTreeSet::new();
    let mut digests: Vec<(u64, u64)> = vec![];
    let mut faults = Counters::default();
    let mut probes = Counters::default();
    let mut strategies = Counters::default();
    let mut violations: Vec<Value> = vec![];
    let mut samples: Vec<Value> = vec![];
    let mut sim_ms = 0u64;
    let mut steps = 0u64;
    let mut max_tail = 0u64;
    for k in ["steal-succeeded", "idle-then-reactivated", "c07-window(failed receive, push elsewhere, then deactivate)", "idle-worker-woke-after-visitor-quit", "visitor-quit-injected", "visitor-skip-injected", "symlink-loop-reported", "crossed-device-boundary", "max-depth-cut", "filesize-cut", "filter-cut", "ignore-rule-cut"] {
        if (prop == "C07") == (k.contains("visitor") || k.contains("c07") || k.contains("steal") || k.contains("idle") || k.contains("counter")) || k.contains("steal") {
            probes.add(k, 0);
        }
    }
    let deadline = Deadline::new(opts.get("budget").and_then(|s| s.parse().ok()).unwrap_or(u64::MAX / 4));
    let mut skipped = 0u64;
    let mut i = wi;
    while i < total {
        if deadline.passed() {
            skipped = (total - i + wn - 1) / wn;
            break;
        }
        let idx = offset + i;
        let sub = subseed(opts.seed, &format!("{prop}/{label}"), idx);
        let case = if prop == "C07" { gen_case_c07(sub, opts.thorough()) } else { gen_case_c06(sub, opts.thorough()) };
        let (r, v) = evaluate(&prop, &case, scratch.path());
        evals += 1;
        steps += r.outcome.steps;
        sim_ms += r.outcome.idle_ms;
        strategies.inc(&case.strategy.name());
        let o = &r.outcome;
        // digest: schedule hash + visit order (for the determinism self-test)
        let mut d = o.hash;
        for s in &r.seen {
            d = fnv_step(d, fnv(format!("{s:?}").as_bytes()));
        }
        digests.push((idx, d));
        if o.preemptions > 0 && !r.seen.is_empty() {
            hashes.insert(o.hash);
        }
        faults.add("readdir-permutation", o.readdir_calls);
        if prop == "C07" {
            // (C06 compares with the serial walker, whose directory reads are not hooked)
            faults.add("readdir-entry-error", o.readdir_faults);
            faults.add("stat-fails-at-device-check(syscall shim)", r.stat_faults);
        } else {
            faults.add("stat-fails-at-size-check(syscall shim)", r.stat_faults);
            faults.add("opendir-or-readdir-fails(syscall shim, both walkers)", r.dir_faults);
        }
        faults.add("preemption", o.preemptions);
        faults.add("idle-sleep-simulated", o.idle_ms);
        if case.visitor.quit_at.is_some() {
            faults.inc("visitor-quit");
            probes.inc("visitor-quit-injected");
        }
        if !case.visitor.skip.is_empty() {
            faults.inc("visitor-skip");
            probes.inc("visitor-skip-injected");
        }
        probes.add("steal-succeeded", (o.steals_ok > 0) as u64);
        if prop == "C07" {
            probes.add("idle-then-reactivated", (o.reactivated > 0) as u64);
            probes.add("c07-window(failed receive, push elsewhere, then deactivate)", (o.c07_window > 0) as u64);
            faults.add("anomaly:active-counter-zero-while-a-worker-is-busy", (o.premature_zero > 0) as u64);
            probes.add("idle-worker-woke-after-visitor-quit", (o.quit_seen_by_idle > 0) as u64);
            if case.visitor.quit_at.is_none() && o.failure.is_none() {
                max_tail = max_tail.max(o.steps - o.last_user_step);
            }
        } else {
            probes.add("symlink-loop-reported", r.seen.iter().any(|s| matches!(s, Seen::Err(k, _) if k == "loop")) as u64);
            let base = scratch.path().join("r");
            let _ = base;
            probes.add("max-depth-cut", case.cfg.max_depth.is_some() as u64);
            probes.add("standard-output-is-a-file-of-the-tree(skip_stdout)", case.cfg.skip_stdout.is_some() as u64);
            probes.add("filesize-cut", case.cfg.max_filesize.is_some() as u64);
            probes.add("filter-cut", case.cfg.filter_char.is_some() as u64);
            probes.add("ignore-rule-cut", (case.cfg.ignore_files && case.tree.nodes.iter().any(|n| n.path.ends_with(".ignore") || n.path.ends_with(".gitignore"))) as u64);
            probes.add("link-target-on-another-device-with-an-ancestor's-inode-number", tree::COLLISION_ACHIEVED.with(|c| c.get()) as u64);
            probes.add("crossed-device-boundary", (case.cfg.same_file_system && case.cfg.follow_links && case.tree.nodes.iter().any(|n| matches!(n.kind, NodeKind::XdevLink))) as u64);
        }
        if samples.len() < 2 && o.preemptions > 0 {
            samples.push(json!({
                "subseed": sub,
                "workers": case.cfg.threads,
                "strategy": case.strategy.name(),
                "tree_entries": case.tree.nodes.len(),
                "roots": case.tree.roots,
                "cfg": case.cfg.to_json(),
                "visitor": { "quit_at": case.visitor.quit_at, "skip": case.visitor.skip.len() },
                "steps": o.steps, "preemptions": o.preemptions, "decisions": o.decisions,
                "trace_head": trace_text(o).chars().take(600).collect::<String>(),
                "visited": r.seen.len(),
            }));
        }
        if let Some(v) = v {
            if v.class == "harness" {
                harness_error(&v.summary);
            }
            let min = if violations.len() < 3 { minimise(&prop, &case, &r, &v.class, scratch.path()) } else { case.clone() };
            let (mr, mv) = evaluate(&prop, &min, scratch.path());
            let (fin, fr, fv) = match mv {
                Some(mv) if mv.class == v.class => (min, mr, mv),
                _ => {
                    let mut c = case.clone();
                    c.replay = r.outcome.choices.clone();
                    c.strategy = Strategy::Default;
                    (c, r, v)
                }
            };
            let mut rj = case_to_json(&fin);
            rj["expect_class"] = json!(fv.class);
            rj["observed"] = json!({
                "visited": fr.seen.iter().map(|s| format!("{s:?}")).collect::<Vec<_>>(),
                "trace": trace_text(&fr.outcome),
                "steps": fr.outcome.steps,
            });
            violations.push(json!({ "class": fv.class, "summary": fv.summary, "subseed": sub, "replay": rj }));
        }
        i += wn;
    }
    // hashes go to a side file (binary) to keep the line small
    let hpath = opts.get("hashfile").map(PathBuf::from);
    if let Some(hp) = &hpath {
        let mut f = std::fs::File::create(hp).unwrap();
        for h in &hashes {
            f.write_all(&h.to_le_bytes()).unwrap();
        }
        for (idx, d) in &digests {
            let _ = (idx, d);
        }
    }
    let line = json!({
        "evals": evals, "steps": steps, "sim_ms": sim_ms, "max_tail": max_tail,
        "faults": faults.to_json(), "probes": probes.to_json(), "strategies": strategies.to_json(),
        "violations": violations, "samples": samples,
        "digests": digests.iter().map(|(i, d)| json!([i, format!("{d:016x}")])).collect::<Vec<_>>(),
        "distinct_local": hashes.len(), "skipped": skipped,
    });
    println!("{line}");
}

// ---------------------------------------------------------------------------
// Parent: fans out worker processes, merges, runs the determinism self-test.

struct Merged {
    skipped: u64,
    evals: u64,
    steps: u64,
    sim_ms: u64,
    max_tail: u64,
    faults: Counters,
    probes: Counters,
    strategies: Counters,
    violations: Vec<Value>,
    samples: Vec<Value>,
    digests: BTreeMap<u64, String>,
    hashes: BTreeSet<u64>,
}

fn fan_out(opts: &Opts, label: &str, runs: u64, offset: u64, jobs: usize, scratch: &Path, tag: &str, budget_s: u64) -> Merged {
    let exe = std::env::current_exe().unwrap();
    let mut children = vec![];
    for w in 0..jobs {
        let hf = scratch.join(format!("hashes-{tag}-{w}.bin"));
        let child = std::process::Command::new(&exe)
            .args(["--property", &opts.property, "--tier", &opts.tier, "--seed", &opts.seed.to_string()])
            .args(["--worker", &format!("{w}/{jobs}"), "--runs", &runs.to_string(), "--offset", &offset.to_string(), "--label", label])
            .args(["--hashfile", hf.to_str().unwrap(), "--budget", &budget_s.to_string()])
            .stdin(std::process::Stdio::null())
            .stdout(std::process::Stdio::piped())
            .stderr(std::process::Stdio::inherit())
            .spawn()
            .unwrap_or_else(|e| harness_error(&format!("spawn worker: {e}")));
        children.push((child, hf));
    }
    let mut m = Merged {
        skipped: 0,
        evals: 0,
        steps: 0,
        sim_ms: 0,
        max_tail: 0,
        faults: Counters::default(),
        probes: Counters::default(),
        strategies: Counters::default(),
        violations: vec![],
        samples: vec![],
        digests: BTreeMap::new(),
        hashes: BTreeSet::new(),
    };
    for (child, hf) in children {
        let out = child.wait_with_output().unwrap_or_else(|e| harness_error(&format!("worker: {e}")));
        if !out.status.success() {
            harness_error(&format!("worker exited with {:?}", out.status));
        }
        let text = String::from_utf8_lossy(&out.stdout);
        let line = text.lines().last().unwrap_or("");
        let v: Value = serde_json::from_str(line).unwrap_or_else(|e| harness_error(&format!("worker output: {e}: {line:.200}")));
        m.evals += v["evals"].as_u64().unwrap_or(0);
        m.skipped += v["skipped"].as_u64().unwrap_or(0);
        m.steps += v["steps"].as_u64().unwrap_or(0);
        m.sim_ms += v["sim_ms"].as_u64().unwrap_or(0);
        m.max_tail = m.max_tail.max(v["max_tail"].as_u64().unwrap_or(0));
        m.faults.merge(&Counters::from_json(&v["faults"]));
        m.probes.merge(&Counters::from_json(&v["probes"]));
        m.strategies.merge(&Counters::from_json(&v["strategies"]));
        m.violations.extend(v["violations"].as_array().cloned().unwrap_or_default());
        m.samples.extend(v["samples"].as_array().cloned().unwrap_or_default());
        for d in v["digests"].as_array().cloned().unwrap_or_default() {
            m.digests.insert(d[0].as_u64().unwrap(), d[1].as_str().unwrap().to_string());
        }
        if let Ok(b) = std::fs::read(&hf) {
            for c in b.chunks_exact(8) {
                m.hashes.insert(u64::from_le_bytes(c.try_into().unwrap()));
            }
        }
        let _ = std::fs::remove_file(&hf);
    }
    m
}

fn replay_main(opts: &Opts, path: &Path) -> i32 {
    let v = read_json(path);
    let prop = v["property"].as_str().unwrap_or(&opts.property).to_string();
    let mut case = case_from_json(&v);
    case.strict = true;
    let scratch = Scratch::new("walkreplay");
    std::panic::set_hook(Box::new(|_| {}));
    let (r, verdict) = evaluate(&prop, &case, scratch.path());
    println!("replay: steps={} decisions={} visited={}", r.outcome.steps, r.outcome.decisions, r.seen.len());
    println!("trace: {}", trace_text(&r.outcome).chars().take(3000).collect::<String>());
    if let Some(f) = &r.outcome.failure {
        if f.starts_with("REPLAY-DIVERGENCE") {
            eprintln!("HARNESS-ERROR: {f}");
            return 2;
        }
    }
    match verdict {
        Some(v) => {
            println!("VIOLATION property={} replay={}", prop, path.display());
            println!("  class={} {}", v.class, v.summary);
            1
        }
        None => {
            println!("replay: property held on this case");
            0
        }
    }
}

fn main() {
    // every walksim process (driver, workers, replay) runs with the syscall shim preloaded
    if !shim::available() && Path::new(shim::PATH).exists() && std::env::var_os("WALKSIM_REEXECED").is_none() {
        use std::os::unix::process::CommandExt;
        let err = std::process::Command::new(std::env::current_exe().unwrap()).args(std::env::args_os().skip(1)).env("LD_PRELOAD", shim::PATH).env("WALKSIM_REEXECED", "1").exec();
        harness_error(&format!("re-exec with the syscall shim failed: {err}"));
    }
    let opts = Opts::parse();
    ignore::verif::set_event_fn(Some(vsched::ripgrep_verif_event));
    if opts.get("worker").is_some() {
        worker_main(&opts);
        return;
    }
    if let Some(p) = &opts.replay {
        std::process::exit(replay_main(&opts, p));
    }
    // directories on the second device left behind by worker processes that were
    // killed (hang detector) in an earlier run: remove those whose owner is gone
    if let Ok(rd) = std::fs::read_dir("/var/tmp") {
        for e in rd.flatten() {
            let name = e.file_name().to_string_lossy().into_owned();
            if let Some(rest) = name.strip_prefix("verif-xdev-") {
                let pid = rest.split('-').next().unwrap_or("");
                if !pid.is_empty() && !Path::new(&format!("/proc/{pid}")).exists() {
                    let _ = std::fs::remove_dir_all(e.path());
                }
            }
        }
    }
    // ... and tmpfs instances mounted by such processes (inode-collision cases)
    if let Ok(m) = std::fs::read_to_string("/proc/mounts") {
        for line in m.lines() {
            let Some(mp) = line.split(' ').nth(1) else { continue };
            if let Some(rest) = mp.strip_prefix("/dev/shm/verif-walk-") {
                let pid = rest.split('-').next().unwrap_or("");
                if !pid.is_empty() && !Path::new(&format!("/proc/{pid}")).exists() {
                    tree::umount_lazy(Path::new(mp));
                    let _ = std::fs::remove_dir_all(format!("/dev/shm/verif-walk-{}", rest.split('/').next().unwrap_or("")));
                }
            }
        }
    }
    let prop = opts.property.as_str();
    if prop != "C06" && prop != "C07" {
        harness_error("walksim serves C06 and C07");
    }
    let (level, rule) = if prop == "C07" {
        (
            "exploration",
            "one evaluation = one complete run of the real parallel walker on a generated tmpfs tree under a seeded baton schedule (strategy: uniform random, PCT d<=4, sticky, round-robin), with seeded readdir order, optional injected readdir-entry errors and a visitor script (continue / quit at visit k / skip set). distinct_nontrivial = number of distinct schedule traces (hash over the (worker, site) sequence) among runs with at least one preemption and at least one visit.",
        )
    } else {
        (
            "exploration",
            "one evaluation = the real parallel walker under a seeded baton schedule plus the real serial walker plus (when no ignore/hidden rules are active) an independent listing, on one generated tree (files, empty dirs, chains, fan-out, file/dir symlinks, cycles, dangling links, several/overlapping roots, file roots, a cross-device link) and one sampled builder configuration (max_depth, max_filesize, follow_links, same_file_system, filter_entry, ignore files, hidden, threads 1..16). distinct_nontrivial = distinct schedule traces among runs with a preemption and a visit.",
        )
    };
    let mut rep = Report::new(&opts, level, rule);
    let scratch = Scratch::new("walkparent");
    let runs = if prop == "C07" { opts.cases(150_000, 6_000_000) } else { opts.cases(100_000, 2_500_000) };
    let jobs = opts.jobs.max(1);
    let main = fan_out(&opts, "main", runs, 0, jobs, scratch.path(), "m", opts.budget_s());
    // Determinism self-test: re-run a sample of the same sub-seeds in other
    // processes with a different worker count and compare full digests
    // (schedule trace hash + visit order). A difference is a harness error.
    let st_runs = if opts.thorough() { 4_000.min(runs) } else { 600.min(runs) };
    let st_jobs = if jobs > 3 { jobs - 3 } else { jobs + 1 };
    let again = fan_out(&opts, "main", st_runs, 0, st_jobs, scratch.path(), "s", opts.budget_s() / 3 + 5);
    let mut mism = 0;
    for (i, d) in &again.digests {
        if main.digests.contains_key(i) && main.digests.get(i) != Some(d) {
            mism += 1;
            if mism <= 3 {
                eprintln!("determinism self-test: run {i} digest {} vs {}", main.digests.get(i).cloned().unwrap_or_default(), d);
            }
        }
    }
    if mism > 0 && !main.violations.is_empty() {
        // a tree that already violates the property is judged by its violations (each with its own
        // replay file); the self-test is a statement about the harness on a tree that holds
        eprintln!("determinism self-test: {mism} re-executed runs differ; not a harness verdict because violations were found");
    } else if mism > 0 {
        harness_error(&format!("determinism self-test failed: {mism} of {} re-executed runs differ", again.digests.len()));
    }
    rep.evaluations = main.evals + again.evals;
    rep.distinct = main.hashes.clone();
    rep.faults = main.faults.clone();
    rep.probes = main.probes.clone();
    rep.sim_ms = main.sim_ms;
    for s in main.samples.iter().take(4) {
        rep.sample(s.clone());
    }
    rep.extra.insert("scheduling_steps".into(), json!(main.steps));
    rep.extra.insert("runs_planned".into(), json!(runs));
    rep.extra.insert("runs_skipped_by_time_budget".into(), json!(main.skipped));
    if main.skipped > 0 {
        println!("note: time budget of {} s reached, {} of {} planned runs not executed", opts.budget_s(), main.skipped, runs);
    }
    rep.extra.insert("strategy_mix".into(), main.strategies.to_json());
    rep.extra.insert("distinct_interleavings".into(), json!(main.hashes.len()));
    rep.extra.insert("determinism_selftest".into(), json!({ "runs_reexecuted": again.digests.len(), "mismatches": 0, "worker_processes": [jobs, st_jobs] }));
    if prop == "C07" {
        rep.extra.insert("max_steps_after_last_visit".into(), json!(main.max_tail));
    }
    rep.extra.insert(
        "components".into(),
        json!({
            "real": ["ignore::WalkParallel / Worker / Stack (work stealing, quit protocol)", "crossbeam-deque", "ignore::Walk (serial reference)", "ignore gitignore/hidden matchers", "tmpfs file system via std::fs"],
            "simulated": ["thread interleaving (vsched baton scheduler at hooked yield points)", "idle sleep (virtual 1 ms clock, modelled as blocking)", "readdir order (sorted then seeded permutation)", "readdir entry errors (injected)", "visitor decisions (scripted quit/skip)"]
        }),
    );
    rep.assumptions = vec![
        "sequential consistency: the baton scheduler serialises workers, weak-memory reorderings of the two atomics are not explored".into(),
        "crossbeam-deque is executed, not re-verified; under the baton its operations never return Retry".into(),
        "a worker that finds every deque empty is modelled as blocked until another worker executes a state-changing step (sound: a failed scan changes nothing)".into(),
        "clean batches are evidence from seeded sampling, not proof".into(),
    ];
    for v in &main.violations {
        rep.violations.push(Violation {
            property: opts.property.clone(),
            class: v["class"].as_str().unwrap_or("?").into(),
            summary: v["summary"].as_str().unwrap_or("").into(),
            subseed: v["subseed"].as_u64().unwrap_or(0),
            replay: v["replay"].clone(),
        });
    }
    std::process::exit(rep.finish());
}
