//! Tree specifications: generation from a seed, materialisation on tmpfs,
//! JSON form for replay files, and the independent listing used as the
//! third party in the C06 oracle.

use crate::Seen;
use serde_json::{json, Value};
use simcore::Rng;
use std::collections::{BTreeMap, BTreeSet};
use std::os::unix::fs::MetadataExt;
use std::path::{Path, PathBuf};

#[derive(Clone, Debug, PartialEq)]
pub enum NodeKind {
    Dir,
    /// Regular file with this many bytes.
    File(usize),
    /// Regular file with this text (ignore files).
    Text(String),
    /// Symlink to another node of the tree (absolute target).
    Link(String),
    /// Symlink to nothing.
    Dangling,
    /// A unix-domain socket (bound, nobody listening): an entry that is neither file nor directory.
    Socket,
    /// Symlink to a directory on another file system holding two files.
    XdevLink,
}

#[derive(Clone, Debug)]
pub struct Node {
    /// Path relative to the base directory, e.g. "t/d0/f3".
    pub path: String,
    pub kind: NodeKind,
}

#[derive(Clone, Debug)]
pub struct TreeSpec {
    pub nodes: Vec<Node>,
    /// Walk roots, relative to the base directory.
    pub roots: Vec<String>,
    /// The tree and the target of the cross-device link live on two freshly mounted tmpfs
    /// instances, so that the link's target directory has the same inode NUMBER as an
    /// ancestor of the link (on another device): not a loop. Needs the right to mount.
    pub collide: bool,
}

#[derive(Clone, Debug)]
pub struct WalkCfg {
    pub threads: usize,
    pub max_depth: Option<usize>,
    pub max_filesize: Option<u64>,
    pub follow_links: bool,
    pub same_file_system: bool,
    /// Entry filter: reject entries whose file name contains this character.
    pub filter_char: Option<char>,
    pub ignore_files: bool,
    pub hidden: bool,
    /// Override glob (command-line style), e.g. "!d1/" or "*.x".
    pub override_glob: Option<String>,
    /// Select only files of type "xt" (defined as *.x); directories always pass.
    pub type_x: bool,
    /// sort_by_file_name on the builder (only the single-threaded walker sorts).
    pub sort_names: bool,
    /// ".myignore" registered as a custom ignore file name (ignore files of the tree carry that name).
    pub custom_ignore: bool,
    /// parents(true): ignore files of the ancestors of a root apply below it.
    pub parents: bool,
    /// skip_stdout(true) while standard output is this file of the tree: entries that are that
    /// file (by any name, also through a followed link) are not reported, roots excepted.
    pub skip_stdout: Option<String>,
    /// How directory roots are spelled for the builder: 0 as they are, 1 "./" in front of the
    /// last component, 2 a trailing slash, 3 "<dir>/../<dir>". Reported paths are compared after
    /// lexical normalisation, so the spelling must not change what is reported.
    pub root_spelling: u8,
}

impl Default for WalkCfg {
    fn default() -> WalkCfg {
        WalkCfg { threads: 2, max_depth: None, max_filesize: None, follow_links: false, same_file_system: false, filter_char: None, ignore_files: false, hidden: false, override_glob: None, type_x: false, sort_names: false, custom_ignore: false, parents: false, skip_stdout: None, root_spelling: 0 }
    }
}

impl WalkCfg {
    pub fn to_json(&self) -> Value {
        json!({
            "threads": self.threads, "max_depth": self.max_depth, "max_filesize": self.max_filesize,
            "follow_links": self.follow_links, "same_file_system": self.same_file_system,
            "filter_char": self.filter_char.map(|c| c.to_string()), "ignore_files": self.ignore_files, "hidden": self.hidden,
            "override_glob": self.override_glob, "type_x": self.type_x, "sort_names": self.sort_names, "custom_ignore": self.custom_ignore, "parents": self.parents, "skip_stdout": self.skip_stdout, "root_spelling": self.root_spelling,
        })
    }
    pub fn from_json(v: &Value) -> WalkCfg {
        WalkCfg {
            threads: v["threads"].as_u64().unwrap_or(2) as usize,
            max_depth: v["max_depth"].as_u64().map(|x| x as usize),
            max_filesize: v["max_filesize"].as_u64(),
            follow_links: v["follow_links"].as_bool().unwrap_or(false),
            same_file_system: v["same_file_system"].as_bool().unwrap_or(false),
            filter_char: v["filter_char"].as_str().and_then(|s| s.chars().next()),
            ignore_files: v["ignore_files"].as_bool().unwrap_or(false),
            hidden: v["hidden"].as_bool().unwrap_or(false),
            override_glob: v["override_glob"].as_str().map(String::from),
            type_x: v["type_x"].as_bool().unwrap_or(false),
            sort_names: v["sort_names"].as_bool().unwrap_or(false),
            custom_ignore: v["custom_ignore"].as_bool().unwrap_or(false),
            parents: v["parents"].as_bool().unwrap_or(false),
            skip_stdout: v["skip_stdout"].as_str().map(String::from),
            root_spelling: v["root_spelling"].as_u64().unwrap_or(0) as u8,
        }
    }
}

impl TreeSpec {
    pub fn to_json(&self) -> Value {
        json!({
            "roots": self.roots,
            "xdev_inode_collision": self.collide,
            "nodes": self.nodes.iter().map(|n| match &n.kind {
                NodeKind::Dir => json!([n.path, "dir"]),
                NodeKind::File(s) => json!([n.path, "file", s]),
                NodeKind::Text(t) => json!([n.path, "text", t]),
                NodeKind::Link(t) => json!([n.path, "link", t]),
                NodeKind::Dangling => json!([n.path, "dangling"]),
                NodeKind::Socket => json!([n.path, "socket"]),
                NodeKind::XdevLink => json!([n.path, "xdev"]),
            }).collect::<Vec<_>>(),
        })
    }
    pub fn from_json(v: &Value) -> TreeSpec {
        let roots = v["roots"].as_array().map(|a| a.iter().filter_map(|s| s.as_str().map(String::from)).collect()).unwrap_or_default();
        let mut nodes = vec![];
        for n in v["nodes"].as_array().cloned().unwrap_or_default() {
            let path = n[0].as_str().unwrap_or("").to_string();
            let kind = match n[1].as_str().unwrap_or("") {
                "dir" => NodeKind::Dir,
                "file" => NodeKind::File(n[2].as_u64().unwrap_or(0) as usize),
                "text" => NodeKind::Text(n[2].as_str().unwrap_or("").to_string()),
                "link" => NodeKind::Link(n[2].as_str().unwrap_or("").to_string()),
                "dangling" => NodeKind::Dangling,
                "socket" => NodeKind::Socket,
                _ => NodeKind::XdevLink,
            };
            nodes.push(Node { path, kind });
        }
        TreeSpec { nodes, roots, collide: v["xdev_inode_collision"].as_bool().unwrap_or(false) }
    }
}

#[derive(Clone, Copy, PartialEq, Debug)]
pub enum TreeMode {
    /// Directories and regular files only, disjoint roots (isolates the protocol).
    Plain,
    /// Also symlinks, cycles, dangling links, hidden names, ignore files,
    /// overlapping roots, file roots, a cross-device link.
    Rich,
}

pub fn gen_tree(rng: &mut Rng, mode: TreeMode) -> TreeSpec {
    let mut nodes: Vec<Node> = vec![Node { path: "t".into(), kind: NodeKind::Dir }];
    let mut dirs: Vec<String> = vec!["t".into()];
    // shape: random attachment / deep chain / wide fan-out
    let shape = rng.below(4);
    let nd = match rng.below(6) {
        0 => 0,
        1..=3 => 1 + rng.below(5),
        _ => 3 + rng.below(9),
    };
    for i in 0..nd {
        let parent = match shape {
            0 => dirs.last().unwrap().clone(), // chain
            1 => dirs[0].clone(),              // fan-out
            _ => dirs[rng.below(dirs.len())].clone(),
        };
        let name = if mode == TreeMode::Rich && rng.chance(1, 12) { format!(".hd{i}") } else { format!("d{i}") };
        let p = format!("{parent}/{name}");
        nodes.push(Node { path: p.clone(), kind: NodeKind::Dir });
        dirs.push(p);
    }
    let nf = match rng.below(5) {
        0 => 0,
        1..=2 => rng.below(6),
        _ => rng.below(31),
    };
    let mut files: Vec<String> = vec![];
    for i in 0..nf {
        let parent = dirs[rng.below(dirs.len())].clone();
        let name = if mode == TreeMode::Rich && rng.chance(1, 10) {
            format!(".hf{i}")
        } else if mode == TreeMode::Rich && rng.chance(1, 8) {
            format!("f{i}.x")
        } else {
            format!("f{i}")
        };
        let p = format!("{parent}/{name}");
        let size = [0usize, 1, 2, 3, 6][rng.below(5)];
        nodes.push(Node { path: p.clone(), kind: NodeKind::File(size) });
        files.push(p);
    }
    let mut roots: Vec<String> = vec!["t".into()];
    if mode == TreeMode::Rich {
        // symlinks
        let nl = rng.below(4);
        for i in 0..nl {
            let parent = dirs[rng.below(dirs.len())].clone();
            let p = format!("{parent}/l{i}");
            let kind = match rng.below(6) {
                0 => NodeKind::Dangling,
                1 | 2 if !files.is_empty() => NodeKind::Link(files[rng.below(files.len())].clone()),
                3 => NodeKind::Link(dirs[rng.below(dirs.len())].clone()), // may be an ancestor: a cycle
                4 => {
                    // link to an ancestor for sure (cycle when followed)
                    let anc = match parent.rfind('/') {
                        Some(k) if rng.chance(1, 2) => parent[..k].to_string(),
                        _ => parent.clone(),
                    };
                    NodeKind::Link(anc)
                }
                _ => {
                    if nodes.iter().any(|n| n.kind == NodeKind::XdevLink) {
                        NodeKind::Dangling
                    } else {
                        NodeKind::XdevLink
                    }
                }
            };
            nodes.push(Node { path: p, kind });
        }
        // an entry that is neither file nor directory, and a link to it
        if rng.chance(1, 5) {
            let parent = dirs[rng.below(dirs.len())].clone();
            let sp = format!("{parent}/zsock");
            nodes.push(Node { path: sp.clone(), kind: NodeKind::Socket });
            if rng.chance(2, 3) {
                let lp = dirs[rng.below(dirs.len())].clone();
                nodes.push(Node { path: format!("{lp}/zlsock"), kind: NodeKind::Link(sp) });
            }
        }
        // ignore files
        let ni = rng.below(3);
        for _ in 0..ni {
            let parent = dirs[rng.below(dirs.len())].clone();
            let name = if rng.chance(1, 2) { ".ignore" } else { ".gitignore" };
            let p = format!("{parent}/{name}");
            if nodes.iter().any(|n| n.path == p) {
                continue;
            }
            let mut text = String::new();
            for _ in 0..1 + rng.below(3) {
                let rule = match rng.below(7) {
                    0 => format!("f{}", rng.below(10)),
                    1 => format!("d{}/", rng.below(6)),
                    2 => "*.x".to_string(),
                    3 => format!("!f{}", rng.below(10)),
                    4 => format!("/d{}", rng.below(6)),
                    5 => format!("l{}", rng.below(3)),
                    _ => format!("**/f{}", rng.below(10)),
                };
                text.push_str(&rule);
                text.push('\n');
            }
            nodes.push(Node { path: p, kind: NodeKind::Text(text) });
        }
        // roots
        match rng.below(10) {
            // several sub-directories as roots (siblings, nested ones, the same parent met again
            // after another root): what their common ancestors' ignore files say holds for each
            8 | 9 if dirs.len() > 2 => {
                let mut k: Vec<String> = dirs[1..].to_vec();
                rng.shuffle(&mut k);
                k.truncate(2 + rng.below(3));
                roots = k;
            }
            0 if dirs.len() > 1 => roots = vec![dirs[1 + rng.below(dirs.len() - 1)].clone()],
            1 if !files.is_empty() => roots = vec![files[rng.below(files.len())].clone()],
            2 if !files.is_empty() => {
                // a file root before or after the directory root
                let f = files[rng.below(files.len())].clone();
                if rng.chance(1, 2) {
                    roots.push(f);
                } else {
                    roots.insert(0, f);
                }
            }
            3 if dirs.len() > 1 => roots.push(dirs[1 + rng.below(dirs.len() - 1)].clone()), // overlapping
            5 | 6 => {
                // a further root that lives on another file system (reached
                // through the cross-device link), before or after "t"
                if let Some(x) = nodes.iter().find(|n| n.kind == NodeKind::XdevLink) {
                    if rng.chance(1, 2) {
                        roots.push(x.path.clone());
                    } else {
                        roots.insert(0, x.path.clone());
                    }
                }
            }
            7 => {
                // standard input among the roots
                if rng.chance(1, 2) {
                    roots.push("-".into());
                } else {
                    roots.insert(0, "-".into());
                }
            }
            4 => {
                // a root that is itself a symlink
                let links: Vec<&Node> = nodes.iter().filter(|n| matches!(n.kind, NodeKind::Link(_))).collect();
                if !links.is_empty() {
                    roots = vec![links[rng.below(links.len())].path.clone()];
                }
            }
            _ => {}
        }
    } else {
        // disjoint roots: sometimes the children of "t" instead of "t" itself
        if rng.chance(1, 5) {
            let kids: Vec<String> = nodes.iter().filter(|n| n.path.matches('/').count() == 1).map(|n| n.path.clone()).collect();
            if kids.len() >= 2 {
                let mut k = kids;
                rng.shuffle(&mut k);
                k.truncate(1 + rng.below(4));
                roots = k;
            }
        }
    }
    let collide = mode == TreeMode::Rich && nodes.iter().any(|n| n.kind == NodeKind::XdevLink) && rng.chance(1, 3);
    TreeSpec { nodes, roots, collide }
}

/// Directory on the disk file system (a second device), removed on drop.
pub struct XdevGuard {
    dir: Option<PathBuf>,
    mounts: Vec<PathBuf>,
}

impl Drop for XdevGuard {
    fn drop(&mut self) {
        for m in self.mounts.iter().rev() {
            umount_lazy(m);
        }
        if let Some(p) = &self.dir {
            let _ = std::fs::remove_dir_all(p);
        }
    }
}

fn cpath(p: &Path) -> std::ffi::CString {
    std::ffi::CString::new(p.as_os_str().as_encoded_bytes()).unwrap()
}

pub fn umount_lazy(p: &Path) {
    unsafe { libc::umount2(cpath(p).as_ptr(), libc::MNT_DETACH) };
}

fn mount_tmpfs(p: &Path) -> bool {
    let t = std::ffi::CString::new("tmpfs").unwrap();
    unsafe { libc::mount(t.as_ptr(), cpath(p).as_ptr(), t.as_ptr(), 0, std::ptr::null()) == 0 }
}

/// Whether this process may mount file systems (checked once).
pub fn can_mount() -> bool {
    static CAN: std::sync::OnceLock<bool> = std::sync::OnceLock::new();
    *CAN.get_or_init(|| {
        let d = PathBuf::from(format!("/dev/shm/verif-mountprobe-{}", std::process::id()));
        let _ = std::fs::create_dir_all(&d);
        let ok = mount_tmpfs(&d);
        if ok {
            umount_lazy(&d);
        }
        let _ = std::fs::remove_dir(&d);
        ok
    })
}

thread_local!(
    /// Set by `materialise` when the inode-number collision was really produced.
    pub static COLLISION_ACHIEVED: std::cell::Cell<bool> = const { std::cell::Cell::new(false) }
);

pub fn materialise(base: &Path, tree: &TreeSpec) -> XdevGuard {
    std::fs::create_dir_all(base).unwrap();
    let mut guard = XdevGuard { dir: None, mounts: vec![] };
    COLLISION_ACHIEVED.with(|c| c.set(false));
    let collide = tree.collide && can_mount();
    if collide && mount_tmpfs(base) {
        guard.mounts.push(base.to_path_buf());
    }
    for n in &tree.nodes {
        let p = base.join(&n.path);
        match &n.kind {
            NodeKind::Dir => std::fs::create_dir_all(&p).unwrap(),
            NodeKind::File(s) => std::fs::write(&p, vec![b'x'; *s]).unwrap(),
            NodeKind::Text(t) => std::fs::write(&p, t).unwrap(),
            _ => {}
        }
    }
    for n in &tree.nodes {
        let p = base.join(&n.path);
        match &n.kind {
            NodeKind::Link(t) => std::os::unix::fs::symlink(base.join(t), &p).unwrap(),
            NodeKind::Dangling => std::os::unix::fs::symlink(base.join("nowhere/at/all"), &p).unwrap(),
            NodeKind::Socket => drop(std::os::unix::net::UnixListener::bind(&p).unwrap()),
            NodeKind::XdevLink if collide && !guard.mounts.is_empty() => {
                // A second fresh tmpfs: both instances number their inodes 2, 3, 4, ... in
                // creation order, so some directory here has the number of the link's
                // top-most ancestor over there.
                use std::os::unix::fs::MetadataExt;
                let xm = base.parent().unwrap().join("xm");
                umount_lazy(&xm);
                let _ = std::fs::remove_dir_all(&xm);
                std::fs::create_dir_all(&xm).unwrap();
                let top = base.join(n.path.split('/').next().unwrap());
                let want = std::fs::metadata(&top).map(|m| m.ino()).unwrap_or(0);
                let mut target = xm.join("c0");
                if mount_tmpfs(&xm) {
                    guard.mounts.push(xm.clone());
                    for i in 0..4096 {
                        let c = xm.join(format!("c{i}"));
                        std::fs::create_dir(&c).unwrap();
                        let ino = std::fs::metadata(&c).map(|m| m.ino()).unwrap_or(0);
                        if ino == want {
                            target = c;
                            COLLISION_ACHIEVED.with(|c| c.set(true));
                            break;
                        }
                        if ino > want {
                            break;
                        }
                    }
                }
                std::fs::create_dir_all(target.join("xd")).unwrap();
                std::fs::write(target.join("xf0"), b"x").unwrap();
                std::fs::write(target.join("xd/xf1"), b"xx").unwrap();
                std::os::unix::fs::symlink(&target, &p).unwrap();
            }
            NodeKind::XdevLink => {
                // The scratch tree lives on tmpfs; /var/tmp is on the disk.
                let x = PathBuf::from(format!("/var/tmp/verif-xdev-{}-{}", std::process::id(), simcore::fnv(base.as_os_str().as_encoded_bytes()) % 100000));
                let _ = std::fs::remove_dir_all(&x);
                std::fs::create_dir_all(x.join("xd")).unwrap();
                std::fs::write(x.join("xf0"), b"x").unwrap();
                std::fs::write(x.join("xd/xf1"), b"xx").unwrap();
                std::os::unix::fs::symlink(&x, &p).unwrap();
                guard.dir = Some(x);
            }
            _ => {}
        }
    }
    guard
}

/// Expected visit set for plain trees (directories and regular files, no
/// filtering): every root and everything beneath it, except what lies beneath
/// a directory the visitor skips.
pub fn expected_plain(_base: &Path, tree: &TreeSpec, skip: &BTreeSet<String>) -> BTreeSet<String> {
    let mut out = BTreeSet::new();
    if tree.roots.iter().any(|r| r == "-") {
        out.insert("<stdin>".to_string());
    }
    for n in &tree.nodes {
        let under_root = tree.roots.iter().any(|r| &n.path == r || n.path.starts_with(&format!("{r}/")));
        if !under_root {
            continue;
        }
        // beneath a skipped directory (that is itself within the same root)?
        let hidden_by_skip = skip.iter().any(|s| n.path.starts_with(&format!("{s}/")) && tree.roots.iter().any(|r| s == r || s.starts_with(&format!("{r}/"))));
        if hidden_by_skip {
            continue;
        }
        out.insert(n.path.clone());
        // a root that is a link to the directory on the other device is followed
        if n.kind == NodeKind::XdevLink && tree.roots.contains(&n.path) {
            for c in ["xf0", "xd", "xd/xf1"] {
                if !skip.iter().any(|s| format!("{}/{c}", n.path).starts_with(&format!("{s}/"))) {
                    out.insert(format!("{}/{c}", n.path));
                }
            }
        }
    }
    out
}

/// How often each path may legitimately be reported: once per root that
/// reaches it by name.
pub fn root_multiplicity(tree: &TreeSpec) -> Vec<String> {
    tree.roots.clone()
}

pub fn allowed_multiplicity(roots: &[String], p: &str) -> usize {
    // A path can be reached once from every root that is a prefix of it; with
    // symlinks followed, different names are different paths, so this count
    // is by reported name.
    roots.iter().filter(|r| p == r.as_str() || p.starts_with(&format!("{r}/"))).count().max(1)
}

/// Independent recursive listing with the same depth / size / link / device /
/// entry-filter settings, written against std::fs only. Not used when ignore
/// or hidden rules are active.
thread_local!(
    /// Relative path of a file whose size the walkers could not learn (injected stat fault).
    pub static SIZE_UNKNOWN: std::cell::RefCell<Option<String>> = Default::default()
);

thread_local!(
    /// Relative path of a directory whose opendir() failed for the walkers (injected fault).
    pub static UNLISTABLE: std::cell::RefCell<Option<String>> = Default::default()
);

pub fn model_listing(base: &Path, tree: &TreeSpec, cfg: &WalkCfg) -> Vec<Seen> {
    let mut out = vec![];
    for r in &tree.roots {
        if r == "-" {
            out.push(Seen::Ok("<stdin>".into()));
            continue;
        }
        let p = base.join(r);
        let root_dev = std::fs::metadata(&p).ok().map(|m| m.dev());
        list(base, &p, 0, cfg, root_dev, &mut vec![], &mut out);
    }
    out
}

fn same_file(a: &Path, b: &Path) -> bool {
    match (std::fs::metadata(a), std::fs::metadata(b)) {
        (Ok(x), Ok(y)) => x.dev() == y.dev() && x.ino() == y.ino(),
        _ => false,
    }
}

fn list(base: &Path, p: &Path, depth: usize, cfg: &WalkCfg, root_dev: Option<u64>, ancestors: &mut Vec<PathBuf>, out: &mut Vec<Seen>) {
    let relp = p.strip_prefix(base).unwrap().to_string_lossy().into_owned();
    let lmd = match std::fs::symlink_metadata(p) {
        Ok(m) => m,
        Err(_) => {
            out.push(Seen::Err("io".into(), relp));
            return;
        }
    };
    let is_link = lmd.file_type().is_symlink();
    // Roots are resolved through links; below the root only with follow_links.
    let follow = is_link && (depth == 0 || cfg.follow_links);
    let md = if follow {
        match std::fs::metadata(p) {
            Ok(m) => m,
            Err(_) => {
                out.push(Seen::Err("io".into(), relp));
                return;
            }
        }
    } else {
        lmd
    };
    // Both walkers resolve a followed link (and report a dangling link or a
    // cycle as an error) before any filter sees the entry.
    if md.is_dir() && follow && depth > 0 && ancestors.iter().any(|a| same_file(a, p)) {
        out.push(Seen::Err("loop".into(), relp));
        return;
    }
    if depth > 0 {
        if let Some(so) = &cfg.skip_stdout {
            if let Ok(t) = std::fs::metadata(base.join(so)) {
                if !md.is_dir() && t.dev() == md.dev() && t.ino() == md.ino() {
                    return;
                }
            }
        }
        if let Some(ch) = cfg.filter_char {
            if p.file_name().unwrap().to_string_lossy().contains(ch) {
                return;
            }
        }
        if let Some(max) = cfg.max_filesize {
            let unknown = SIZE_UNKNOWN.with(|c| c.borrow().as_deref() == Some(relp.as_str()));
            if !md.is_dir() && md.len() > max && !unknown {
                return;
            }
        }
    }
    out.push(Seen::Ok(relp.clone()));
    if !md.is_dir() {
        return;
    }
    if cfg.max_depth.map_or(false, |m| depth >= m) {
        return;
    }
    if cfg.same_file_system {
        if let Some(rd) = root_dev {
            if md.dev() != rd {
                return;
            }
        }
    }
    if UNLISTABLE.with(|c| c.borrow().as_deref() == Some(relp.as_str())) {
        out.push(Seen::Err("io".into(), relp));
        return;
    }
    let mut kids: Vec<PathBuf> = match std::fs::read_dir(p) {
        Ok(rd) => rd.filter_map(|e| e.ok()).map(|e| e.path()).collect(),
        Err(_) => return,
    };
    kids.sort();
    ancestors.push(p.to_path_buf());
    for k in kids {
        list(base, &k, depth + 1, cfg, root_dev, ancestors, out);
    }
    ancestors.pop();
}

#[allow(dead_code)]
pub fn count_kinds(tree: &TreeSpec) -> BTreeMap<&'static str, usize> {
    let mut m = BTreeMap::new();
    for n in &tree.nodes {
        let k = match n.kind {
            NodeKind::Dir => "dir",
            NodeKind::File(_) | NodeKind::Text(_) => "file",
            NodeKind::Link(_) => "link",
            NodeKind::Dangling => "dangling",
            NodeKind::Socket => "socket",
            NodeKind::XdevLink => "xdev",
        };
        *m.entry(k).or_insert(0) += 1;
    }
    m
}
