//! `vsched` — a baton scheduler over real OS threads.
//!
//! Every worker thread of the parallel walker blocks at each hooked yield
//! point until the scheduler hands it the baton; exactly one worker executes
//! between two yield points, so the run is a pure function of the seed (or of
//! a recorded list of choices).
//!
//! The same code is linked statically into `walksim` (E2) and built as a
//! `cdylib` that is `LD_PRELOAD`ed into the real `rg` binary (E3), where the
//! hook module of the `ignore` crate finds `ripgrep_verif_event` with
//! `dlsym(RTLD_DEFAULT, ..)`.

use std::cell::Cell;
use std::sync::{Condvar, Mutex};

pub mod site {
    pub const WALK_BEGIN: u32 = 0;
    pub const WALK_END: u32 = 1;
    pub const WORKER_BEGIN: u32 = 2;
    pub const WORKER_END: u32 = 3;
    pub const PUSH: u32 = 4;
    pub const POP: u32 = 5;
    pub const STEAL_ONE: u32 = 6;
    pub const DEACTIVATE: u32 = 7;
    pub const ACTIVATE: u32 = 8;
    pub const IS_QUIT_NOW: u32 = 9;
    pub const QUIT_NOW: u32 = 10;
    pub const IDLE_SLEEP: u32 = 11;
    pub const USER: u32 = 12;
    pub const READDIR_ORDER: u32 = 13;
    pub const READDIR_FAULT: u32 = 14;
    pub const SHARED: u32 = 15;
    pub const NAMES: [&str; 16] = [
        "WalkBegin", "WalkEnd", "WorkerBegin", "WorkerEnd", "Push", "Pop", "StealOne", "Deactivate", "Activate",
        "IsQuitNow", "QuitNow", "IdleSleep", "User", "ReaddirOrder", "ReaddirFault", "Shared",
    ];
}

#[derive(Clone, Copy, Debug, PartialEq, Eq)]
pub enum Strategy {
    /// Uniform choice among enabled workers at every step.
    Random,
    /// Probabilistic concurrency testing: random priorities, `d` priority
    /// change points.
    Pct(u32),
    /// Keep running the current worker with probability p/16.
    Sticky(u32),
    /// Rotate through enabled workers.
    RoundRobin,
    /// Non-preemptive: keep the current worker while it is enabled, else the
    /// lowest index. Used to complete a replayed prefix during minimisation.
    Default,
}

impl Strategy {
    pub fn name(&self) -> String {
        match self {
            Strategy::Random => "random".into(),
            Strategy::Pct(d) => format!("pct{d}"),
            Strategy::Sticky(p) => format!("sticky{p}"),
            Strategy::RoundRobin => "rr".into(),
            Strategy::Default => "default".into(),
        }
    }
    pub fn parse(s: &str) -> Option<Strategy> {
        if s == "random" {
            Some(Strategy::Random)
        } else if s == "rr" {
            Some(Strategy::RoundRobin)
        } else if s == "default" {
            Some(Strategy::Default)
        } else if let Some(d) = s.strip_prefix("pct") {
            d.parse().ok().map(Strategy::Pct)
        } else if let Some(p) = s.strip_prefix("sticky") {
            p.parse().ok().map(Strategy::Sticky)
        } else {
            None
        }
    }
}

#[derive(Clone, Debug)]
pub struct Config {
    pub seed: u64,
    pub strategy: Strategy,
    /// Recorded choices to follow first (one per decision with more than one
    /// enabled worker). After the list is exhausted `strategy` decides.
    pub replay: Vec<u8>,
    /// In strict mode a recorded choice that is not enabled is a divergence.
    pub strict_replay: bool,
    pub max_steps: u64,
    /// Expected run length, used to place PCT change points.
    pub expected_len: u64,
    /// Permute directory entries (seeded per directory name).
    pub readdir_permute: bool,
    /// Replace roughly fault_num/fault_den of directory entries by errors.
    pub readdir_fault: (u32, u32),
}

impl Default for Config {
    fn default() -> Config {
        Config {
            seed: 1,
            strategy: Strategy::Random,
            replay: vec![],
            strict_replay: false,
            max_steps: 200_000,
            expected_len: 120,
            readdir_permute: true,
            readdir_fault: (0, 1),
        }
    }
}

#[derive(Clone, Debug, Default)]
pub struct Outcome {
    pub workers: usize,
    pub steps: u64,
    /// (worker, site) for every scheduled step.
    pub trace: Vec<(u8, u8)>,
    /// Chosen worker at every decision with more than one enabled worker.
    pub choices: Vec<u8>,
    pub decisions: u64,
    pub preemptions: u64,
    pub failure: Option<String>,
    pub diverged: bool,
    pub hash: u64,
    pub idle_ms: u64,
    pub readdir_faults: u64,
    pub readdir_calls: u64,
    /// Step index of the last event of a few kinds (for liveness bounds).
    pub last_user_step: u64,
    pub last_push_step: u64,
    // probes
    pub steals_ok: u64,
    pub reactivated: u64,
    pub c07_window: u64,
    pub premature_zero: u64,
    pub quit_seen_by_idle: u64,
}

#[derive(Clone, Copy, PartialEq, Debug)]
enum TS {
    Unborn,
    At(u32),
    Running,
    Done,
}

struct St {
    cfg: Config,
    n: usize,
    ts: Vec<TS>,
    idle_mode: Vec<bool>,
    round_start: Vec<u64>,
    in_steal: Vec<bool>,
    dir_id: Vec<u64>,
    current: Option<usize>,
    rng: u64,
    last_mutation: u64,
    pct_prio: Vec<i64>,
    pct_points: Vec<u64>,
    rr_next: usize,
    replay_pos: usize,
    out: Outcome,
    active: i64,
    born_logged: bool,
    quit_set: bool,
    generation: u64,
}

// One condition variable for all workers, woken with notify_all at every
// step. Waking only the chosen worker (one condvar each) and spin-then-block
// were both measured in this virtual machine and are 5-10x slower: with a
// single targeted wake-up the other CPUs go idle and every hand-over pays a
// cross-CPU wake-up from halt.
struct Global {
    m: Mutex<Option<St>>,
    cv: Condvar,
}

static G: Global = Global { m: Mutex::new(None), cv: Condvar::new() };

/// The worker index of the calling thread. Its destructor notices a worker
/// thread that dies (panics) while holding or waiting for the baton, which
/// would otherwise leave every other worker blocked for ever.
struct Tid(Cell<Option<usize>>, Cell<u64>);

impl Drop for Tid {
    fn drop(&mut self) {
        if let Some(me) = self.0.get() {
            let mut g = G.m.lock().unwrap_or_else(|e| e.into_inner());
            if let Some(st) = g.as_mut() {
                // Thread-local destructors of scoped threads may run after the
                // scope has returned; never touch a later walk's state.
                if st.generation == self.1.get() && me < st.n && st.ts[me] != TS::Done {
                    st.ts[me] = TS::Done;
                    if st.out.failure.is_none() {
                        st.out.failure = Some(format!("PANIC: worker {me} died without reaching the end of its loop"));
                    }
                    st.current = None;
                    write_outcome_if_preloaded(st);
                    G.cv.notify_all();
                }
            }
        }
    }
}

thread_local!(static TID: Tid = const { Tid(Cell::new(None), Cell::new(0)) });
static GENERATION: std::sync::atomic::AtomicU64 = std::sync::atomic::AtomicU64::new(1);

fn mix(x: &mut u64) -> u64 {
    *x = x.wrapping_add(0x9E3779B97F4A7C15);
    let mut z = *x;
    z = (z ^ (z >> 30)).wrapping_mul(0xBF58476D1CE4E5B9);
    z = (z ^ (z >> 27)).wrapping_mul(0x94D049BB133111EB);
    z ^ (z >> 31)
}

fn hash2(a: u64, b: u64) -> u64 {
    let mut x = a ^ b.rotate_left(29).wrapping_mul(0xD6E8FEB86659FD93);
    mix(&mut x)
}

/// Arms the scheduler for the next parallel walk in this process. The number
/// of workers becomes known at `WalkBegin`.
pub fn begin(cfg: Config) {
    let mut g = G.m.lock().unwrap_or_else(|e| e.into_inner());
    let rng = cfg.seed ^ 0x5bd1e995;
    *g = Some(St {
        cfg,
        n: 0,
        ts: vec![],
        idle_mode: vec![],
        round_start: vec![],
        in_steal: vec![],
        dir_id: vec![],
        current: None,
        rng,
        last_mutation: 0,
        pct_prio: vec![],
        pct_points: vec![],
        rr_next: 0,
        replay_pos: 0,
        out: Outcome { hash: 0xcbf29ce484222325, ..Outcome::default() },
        active: 0,
        born_logged: false,
        quit_set: false,
        generation: GENERATION.fetch_add(1, std::sync::atomic::Ordering::SeqCst),
    });
}

/// Disarms the scheduler and returns what happened.
pub fn end() -> Option<Outcome> {
    let mut g = G.m.lock().unwrap_or_else(|e| e.into_inner());
    g.take().map(|st| st.out)
}

impl St {
    fn start_walk(&mut self, n: usize) {
        self.n = n;
        self.ts = vec![TS::Unborn; n];
        self.idle_mode = vec![false; n];
        self.round_start = vec![0; n];
        self.in_steal = vec![false; n];
        self.dir_id = vec![0; n];
        self.active = n as i64;
        self.out.workers = n;
        let mut prio: Vec<i64> = (0..n as i64).map(|i| 1000 + i).collect();
        for i in (1..n).rev() {
            let j = (mix(&mut self.rng) % (i as u64 + 1)) as usize;
            prio.swap(i, j);
        }
        self.pct_prio = prio;
        if let Strategy::Pct(d) = self.cfg.strategy {
            let len = self.cfg.expected_len.max(8);
            let mut pts: Vec<u64> = (0..d).map(|_| mix(&mut self.rng) % len).collect();
            pts.sort();
            self.pct_points = pts;
        }
    }

    fn enabled(&self, t: usize) -> bool {
        match self.ts[t] {
            TS::At(site::IDLE_SLEEP) => self.last_mutation >= self.round_start[t],
            TS::At(_) => true,
            _ => false,
        }
    }

    /// Chooses the next worker to run. Called with the lock held by a thread
    /// that is about to block or has finished.
    fn schedule(&mut self) {
        self.current_prev_then_pick();
    }

    fn current_prev_then_pick(&mut self) {
        let prev = self.current;
        let live: Vec<usize> = (0..self.n).filter(|&t| matches!(self.ts[t], TS::At(_))).collect();
        if live.is_empty() {
            self.current = None;
            return;
        }
        let en: Vec<usize> = live.iter().cloned().filter(|&t| self.enabled(t)).collect();
        if en.is_empty() {
            self.out.failure = Some(format!(
                "HANG: every live worker is in its idle sleep and nothing can change any more (step {}, workers at {:?})",
                self.out.steps, self.ts
            ));
            self.current = None;
            return;
        }
        if self.out.steps > self.cfg.max_steps {
            self.out.failure = Some(format!("STEP-BOUND: no termination within {} scheduling steps", self.cfg.max_steps));
            self.current = None;
            return;
        }
        let pick = if en.len() == 1 {
            en[0]
        } else {
            self.out.decisions += 1;
            let mut chosen = None;
            if self.replay_pos < self.cfg.replay.len() {
                let want = self.cfg.replay[self.replay_pos] as usize;
                self.replay_pos += 1;
                if en.contains(&want) {
                    chosen = Some(want);
                } else {
                    self.out.diverged = true;
                    if self.cfg.strict_replay {
                        self.out.failure = Some(format!(
                            "REPLAY-DIVERGENCE: recorded choice {want} not enabled at decision {} (enabled {:?})",
                            self.replay_pos - 1,
                            en
                        ));
                        self.current = None;
                        return;
                    }
                }
            }
            let strategy = self.cfg.strategy;
            let c = match chosen {
                Some(c) => c,
                None => match strategy {
                    Strategy::Random => en[(mix(&mut self.rng) % en.len() as u64) as usize],
                    Strategy::Sticky(p) => {
                        let r = mix(&mut self.rng);
                        match prev {
                            Some(c) if en.contains(&c) && (r % 16) < p as u64 => c,
                            _ => en[((r >> 8) % en.len() as u64) as usize],
                        }
                    }
                    Strategy::Pct(_) => {
                        while let Some(&p) = self.pct_points.first() {
                            if p <= self.out.steps {
                                self.pct_points.remove(0);
                                if let Some(c) = prev {
                                    self.pct_prio[c] = -(self.out.steps as i64) - 1;
                                }
                            } else {
                                break;
                            }
                        }
                        *en.iter().max_by_key(|&&t| self.pct_prio[t]).unwrap()
                    }
                    Strategy::RoundRobin => {
                        let mut c = en[0];
                        for k in 0..self.n {
                            let t = (self.rr_next + k) % self.n;
                            if en.contains(&t) {
                                c = t;
                                break;
                            }
                        }
                        self.rr_next = (c + 1) % self.n;
                        c
                    }
                    Strategy::Default => match prev {
                        Some(c) if en.contains(&c) => c,
                        _ => en[0],
                    },
                },
            };
            self.out.choices.push(c as u8);
            c
        };
        if let Some(p) = prev {
            if p != pick && en.contains(&p) {
                self.out.preemptions += 1;
            }
        }
        self.current = Some(pick);
    }

    fn record(&mut self, me: usize, s: u32, arg: usize) {
        self.out.steps += 1;
        let step = self.out.steps;
        self.out.trace.push((me as u8, s as u8));
        self.out.hash = (self.out.hash ^ ((me as u64) << 8 | s as u64)).wrapping_mul(0x100000001b3);
        // probe: a receive that had to scan other deques and came back with
        // something (the next event is neither another victim nor giving up).
        if self.in_steal[me] && !matches!(s, site::STEAL_ONE | site::DEACTIVATE | site::IDLE_SLEEP) {
            self.out.steals_ok += 1;
        }
        self.in_steal[me] = s == site::STEAL_ONE;
        match s {
            site::DEACTIVATE => {
                // probe: the window named in C07 — this worker's receive
                // failed, and since it began some other worker pushed.
                if self.out.last_push_step > self.round_start[me] {
                    self.out.c07_window += 1;
                }
                self.idle_mode[me] = true;
                self.last_mutation = step;
                self.active -= 1;
                if self.active == 0 {
                    // probe: counter reaches zero; is anybody still working?
                    let busy = (0..self.n).any(|t| t != me && !self.idle_mode[t] && !matches!(self.ts[t], TS::Done));
                    if busy {
                        self.out.premature_zero += 1;
                    }
                }
            }
            site::ACTIVATE => {
                self.idle_mode[me] = false;
                self.last_mutation = step;
                self.active += 1;
                self.out.reactivated += 1;
                if self.quit_set {
                    self.out.quit_seen_by_idle += 1;
                }
            }
            site::POP => {
                self.round_start[me] = step;
                if !self.idle_mode[me] {
                    self.last_mutation = step;
                }
            }
            site::STEAL_ONE | site::IDLE_SLEEP => {
                if !self.idle_mode[me] {
                    self.last_mutation = step;
                }
                if s == site::IDLE_SLEEP {
                    self.out.idle_ms += 1;
                }
            }
            site::PUSH => {
                self.last_mutation = step;
                self.out.last_push_step = step;
            }
            site::USER => {
                self.last_mutation = step;
                self.out.last_user_step = step;
            }
            site::QUIT_NOW => {
                self.last_mutation = step;
                self.quit_set = true;
            }
            _ => {
                self.last_mutation = step;
            }
        }
        let _ = arg;
    }
}

fn abort_thread() -> ! {
    TID.with(|c| c.0.set(None));
    if std::env::var_os("RGSCHED_OUT").is_some() {
        // Inside the real binary: the outcome file has been written by the
        // thread that detected the failure.
        unsafe { libc::_exit(86) }
    }
    std::panic::resume_unwind(Box::new("verif-abort"));
}

/// The event callback. See `ignore::verif`.
#[no_mangle]
pub extern "C-unwind" fn ripgrep_verif_event(s: u32, arg: usize) -> i32 {
    if s == site::WALK_BEGIN {
        preload_autobegin();
        let mut g = G.m.lock().unwrap_or_else(|e| e.into_inner());
        if let Some(st) = g.as_mut() {
            st.start_walk(arg);
        }
        return 0;
    }
    if s == site::WALK_END {
        preload_autoend();
        return 0;
    }
    if s == site::WORKER_BEGIN {
        TID.with(|c| c.0.set(Some(arg)));
    }
    let me = match TID.with(|c| c.0.get()) {
        Some(t) => t,
        None => return 0,
    };
    let mut g = G.m.lock().unwrap_or_else(|e| e.into_inner());
    let st = match g.as_mut() {
        Some(st) if st.n > 0 && me < st.n => {
            if s == site::WORKER_BEGIN {
                let gen = st.generation;
                TID.with(|c| c.1.set(gen));
            }
            st
        }
        _ => {
            if s == site::WORKER_END {
                TID.with(|c| c.0.set(None));
            }
            return 0;
        }
    };
    if st.out.failure.is_some() {
        drop(g);
        abort_thread();
    }
    // Directory order and entry faults are decided without yielding: the
    // caller holds the baton.
    if s == site::READDIR_ORDER {
        st.dir_id[me] = arg as u64;
        st.out.readdir_calls += 1;
        if !st.cfg.readdir_permute {
            return 0;
        }
        let v = hash2(st.cfg.seed ^ 0xD1B54A32D192ED03, arg as u64);
        return ((v as u32) | 1) as i32;
    }
    if s == site::READDIR_FAULT {
        let (num, den) = st.cfg.readdir_fault;
        if num == 0 {
            return 0;
        }
        let v = hash2(hash2(st.cfg.seed ^ 0x8CB92BA72F3D8DD7, st.dir_id[me]), arg as u64);
        if (v % den as u64) < num as u64 {
            st.out.readdir_faults += 1;
            return 1;
        }
        return 0;
    }
    if s == site::WORKER_BEGIN {
        // Births are not logged in arrival order (which is real-time
        // dependent); they are logged in index order once all are present.
        st.ts[me] = TS::At(s);
        if st.ts.iter().all(|s| *s != TS::Unborn) && !st.born_logged {
            st.born_logged = true;
            for t in 0..st.n {
                st.record(t, site::WORKER_BEGIN, t);
            }
            st.schedule();
            G.cv.notify_all();
        }
    } else {
        st.record(me, s, arg);
        if s == site::WORKER_END {
            st.ts[me] = TS::Done;
            TID.with(|c| c.0.set(None));
            st.schedule();
            let failed = st.out.failure.is_some();
            if failed {
                write_outcome_if_preloaded(st);
            }
            G.cv.notify_all();
            return 0;
        }
        st.ts[me] = TS::At(s);
        st.schedule();
        G.cv.notify_all();
    }
    loop {
        let st = g.as_mut().unwrap();
        if st.out.failure.is_some() {
            write_outcome_if_preloaded(st);
            drop(g);
            abort_thread();
        }
        if st.born_logged && st.current == Some(me) {
            st.ts[me] = TS::Running;
            break;
        }
        g = G.cv.wait(g).unwrap_or_else(|e| e.into_inner());
    }
    1 // IdleSleep: the sleep has been simulated
}

/// A yield point for harness code running on a worker thread (visitor).
pub fn user_yield(arg: usize) {
    ripgrep_verif_event(site::USER, arg);
}

/// True if the calling thread is a scheduled worker.
pub fn on_worker() -> Option<usize> {
    TID.with(|c| c.0.get())
}

// ---------------------------------------------------------------------------
// Preload mode (E3): configuration comes from the environment, the outcome is
// written to the file named by RGSCHED_OUT.

fn preload_autobegin() {
    let Some(_) = std::env::var_os("RGSCHED_OUT") else { return };
    let seed = std::env::var("RGSCHED_SEED").ok().and_then(|s| s.parse().ok()).unwrap_or(1);
    let strategy = std::env::var("RGSCHED_STRATEGY").ok().and_then(|s| Strategy::parse(&s)).unwrap_or(Strategy::Random);
    let replay: Vec<u8> = std::env::var("RGSCHED_REPLAY")
        .ok()
        .map(|s| s.split(',').filter(|x| !x.is_empty()).filter_map(|x| x.parse().ok()).collect())
        .unwrap_or_default();
    let strict = std::env::var("RGSCHED_STRICT").map(|s| s == "1").unwrap_or(false);
    let expected_len = std::env::var("RGSCHED_EXPECTED_LEN").ok().and_then(|s| s.parse().ok()).unwrap_or(300);
    let max_steps = std::env::var("RGSCHED_MAX_STEPS").ok().and_then(|s| s.parse().ok()).unwrap_or(2_000_000);
    begin(Config {
        seed,
        strategy,
        replay,
        strict_replay: strict,
        max_steps,
        expected_len,
        readdir_permute: std::env::var("RGSCHED_NO_PERMUTE").is_err(),
        readdir_fault: (0, 1),
    });
}

fn outcome_text(o: &Outcome) -> String {
    let mut s = String::new();
    s.push_str(&format!("workers={}\nsteps={}\ndecisions={}\npreemptions={}\nhash={:016x}\nidle_ms={}\n", o.workers, o.steps, o.decisions, o.preemptions, o.hash, o.idle_ms));
    s.push_str(&format!("steals_ok={}\nreactivated={}\nc07_window={}\npremature_zero={}\nquit_seen_by_idle={}\ndiverged={}\n", o.steals_ok, o.reactivated, o.c07_window, o.premature_zero, o.quit_seen_by_idle, o.diverged as u8));
    s.push_str(&format!("failure={}\n", o.failure.clone().unwrap_or_default().replace('\n', " ")));
    s.push_str("choices=");
    s.push_str(&o.choices.iter().map(|c| c.to_string()).collect::<Vec<_>>().join(","));
    s.push('\n');
    s
}

fn write_outcome_if_preloaded(st: &St) {
    if let Some(p) = std::env::var_os("RGSCHED_OUT") {
        let _ = std::fs::write(p, outcome_text(&st.out));
    }
}

fn preload_autoend() {
    let Some(p) = std::env::var_os("RGSCHED_OUT") else { return };
    if let Some(o) = end() {
        let _ = std::fs::write(p, outcome_text(&o));
    }
}

pub fn parse_outcome_text(s: &str) -> Outcome {
    let mut o = Outcome::default();
    for line in s.lines() {
        let Some((k, v)) = line.split_once('=') else { continue };
        match k {
            "workers" => o.workers = v.parse().unwrap_or(0),
            "steps" => o.steps = v.parse().unwrap_or(0),
            "decisions" => o.decisions = v.parse().unwrap_or(0),
            "preemptions" => o.preemptions = v.parse().unwrap_or(0),
            "hash" => o.hash = u64::from_str_radix(v, 16).unwrap_or(0),
            "idle_ms" => o.idle_ms = v.parse().unwrap_or(0),
            "reactivated" => o.reactivated = v.parse().unwrap_or(0),
            "steals_ok" => o.steals_ok = v.parse().unwrap_or(0),
            "c07_window" => o.c07_window = v.parse().unwrap_or(0),
            "premature_zero" => o.premature_zero = v.parse().unwrap_or(0),
            "quit_seen_by_idle" => o.quit_seen_by_idle = v.parse().unwrap_or(0),
            "diverged" => o.diverged = v == "1",
            "failure" => o.failure = if v.is_empty() { None } else { Some(v.to_string()) },
            "choices" => o.choices = v.split(',').filter(|x| !x.is_empty()).filter_map(|x| x.parse().ok()).collect(),
            _ => {}
        }
    }
    o
}
