//! Scripted child process: stands in for a `--pre` preprocessor and, placed
//! first in PATH under the names gzip/bzip2/xz/..., for a decompressor.
//!
//! The script is selected by the base name of the last argument (the file
//! ripgrep asks us to process) from CHILDSTUB_SCRIPTS, a list of
//! `name=op,op,...` entries separated by ';'. Operations:
//!   cat:PATH         write the whole file PATH to stdout
//!   head:PATH:N      write the first N bytes of PATH to stdout
//!   fill:N           write N bytes of filler lines to stdout
//!   err:N            write N bytes to stderr
//!   exit:CODE        exit with CODE
//!   abort            die from SIGABRT
//!   kill:SIG         die from signal SIG
//!   ignore_sigpipe   keep running when stdout is closed (writes fail with EPIPE)
//! Without a matching entry the stub copies the file to stdout (like `cat`).
//! Whatever happens is deterministic: no clocks, no randomness.

use std::io::{Read, Write};

fn main() {
    let args: Vec<String> = std::env::args().collect();
    let path = args.last().cloned().unwrap_or_default();
    let base = std::path::Path::new(&path).file_name().map(|s| s.to_string_lossy().into_owned()).unwrap_or_default();
    let scripts = std::env::var("CHILDSTUB_SCRIPTS").unwrap_or_default();
    let script = scripts.split(';').find_map(|e| e.split_once('=').filter(|(n, _)| *n == base).map(|(_, s)| s.to_string()));
    // Rust ignores SIGPIPE by default; a real preprocessor dies from it.
    unsafe { libc::signal(libc::SIGPIPE, libc::SIG_DFL) };
    let stdout = std::io::stdout();
    let mut out = stdout.lock();
    if script.is_none() && std::env::var_os("CHILDSTUB_STRICT").is_some() {
        // the harness scripted every file it expects to reach a child: being here means a
        // file went through the command that should have been searched directly
        let _ = out.write_all(b"foo: childstub was run on a file it has no script for\n");
        let _ = out.flush();
        std::process::exit(3);
    }
    let Some(script) = script else {
        let mut data = vec![];
        if let Ok(mut f) = std::fs::File::open(&path) {
            let _ = f.read_to_end(&mut data);
        } else {
            let _ = std::io::stdin().read_to_end(&mut data);
        }
        if std::env::var_os("CHILDSTUB_TALKATIVE").is_some() {
            // a preprocessor that survives a closed pipe and complains about it (a shell or
            // Python script does that): failed write -> a line on stderr, exit status 1
            unsafe { libc::signal(libc::SIGPIPE, libc::SIG_IGN) };
            for chunk in data.chunks(4096) {
                if out.write_all(chunk).and_then(|_| out.flush()).is_err() {
                    eprintln!("childstub: could not deliver {path}: write failed");
                    std::process::exit(1);
                }
            }
            return;
        }
        let _ = out.write_all(&data);
        return;
    };
    let mut ignore_pipe = false;
    for op in script.split(',') {
        let parts: Vec<&str> = op.split(':').collect();
        match parts[0] {
            "cat" | "head" | "catself" => {
                // catself: the file named on the command line (what a transparent preprocessor does)
                let mut data = std::fs::read(if parts[0] == "catself" { path.as_str() } else { parts[1] }).unwrap_or_default();
                if parts[0] == "head" {
                    data.truncate(parts[2].parse().unwrap_or(0));
                }
                if out.write_all(&data).and_then(|_| out.flush()).is_err() && !ignore_pipe {
                    std::process::exit(141);
                }
            }
            "catstdin" => {
                // what a filter does: its standard input (which rg connects to the file) to its output
                let mut data = vec![];
                let _ = std::io::stdin().read_to_end(&mut data);
                if out.write_all(&data).and_then(|_| out.flush()).is_err() && !ignore_pipe {
                    std::process::exit(141);
                }
            }
            "fill" => {
                let n: usize = parts[1].parse().unwrap_or(0);
                let line = b"filler filler filler filler filler filler filler filler filler\n";
                let mut left = n;
                let mut failed = false;
                while left > 0 {
                    let k = left.min(line.len());
                    if out.write_all(&line[..k]).is_err() {
                        failed = true;
                        break;
                    }
                    left -= k;
                }
                if (failed || out.flush().is_err()) && !ignore_pipe {
                    std::process::exit(141);
                }
            }
            "err" => {
                let n: usize = parts[1].parse().unwrap_or(0);
                let line = b"childstub: warning: something on stderr, nothing to worry about\n";
                let mut e = std::io::stderr().lock();
                let mut left = n;
                while left > 0 {
                    let k = left.min(line.len());
                    if e.write_all(&line[..k]).is_err() {
                        break;
                    }
                    left -= k;
                }
            }
            "exit" => {
                let _ = out.flush();
                std::process::exit(parts[1].parse().unwrap_or(1));
            }
            "abort" => unsafe {
                libc::abort();
            },
            "kill" => {
                // die from the given signal (after flushing what was written)
                let _ = out.flush();
                let sig: i32 = parts[1].parse().unwrap_or(15);
                unsafe {
                    libc::signal(sig, libc::SIG_DFL);
                    libc::raise(sig);
                }
            }
            "closeout" => {
                // close standard output (end of data for the reader) but keep running
                let _ = out.flush();
                unsafe { libc::close(1) };
            }
            "sleep" => {
                std::thread::sleep(std::time::Duration::from_millis(parts[1].parse().unwrap_or(0)));
            }
            "ignore_sigpipe" => {
                ignore_pipe = true;
                unsafe { libc::signal(libc::SIGPIPE, libc::SIG_IGN) };
            }
            _ => {}
        }
    }
    let _ = out.flush();
}
