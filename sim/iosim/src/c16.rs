//! C16 — stopping early or failing mid-stream yields a prefix of the full
//! results. Crash points are enumerated exhaustively within a case: every
//! event index k x {stop, error}, every read index j x {error, interrupted},
//! plus the printers' match limit for every N and a failing writer.

use crate::c02::Acc;
use crate::case::*;
use crate::model::model;
use crate::run::*;
use crate::sim::*;
use grep_printer::{JSONBuilder, StandardBuilder, SummaryBuilder, SummaryKind};
use serde_json::{json, Value};
use simcore::*;

fn gen_case(sub: u64) -> Case {
    let mut rng = Rng::new(sub);
    let mut cfg = gen_cfg(&mut rng);
    cfg.stop_nm = rng.chance(1, 10);
    cfg.multi_line = rng.chance(1, 3);
    if cfg.stop_nm {
        cfg.multi_line = false;
    }
    if cfg.term == Term::Nul {
        cfg.term = Term::Lf;
    }
    cfg.bin = match rng.below(5) {
        0 => Bin::Quit,
        1 => Bin::Convert,
        _ => Bin::None,
    };
    let mut data = gen_text(&mut rng, cfg.term, 24);
    // every read index is a crash point and every crash point is a full run:
    // keep the input small so that a case stays cheap
    if data.len() > 700 {
        let cut = data[..700].iter().rposition(|&b| b == cfg.term.byte()).map(|i| i + 1).unwrap_or(700);
        data.truncate(cut);
    }
    if cfg.bin != Bin::None && !data.is_empty() && rng.chance(2, 3) {
        let at = rng.below(data.len());
        data[at] = 0;
    }
    let pattern = if cfg.multi_line && rng.chance(2, 3) { ML_PATTERNS[rng.below(ML_PATTERNS.len())] } else { LINE_PATTERNS[rng.below(LINE_PATTERNS.len())] }.to_string();
    Case { data, pattern, cfg }
}

fn is_prefix(short: &[Ev], long: &[Ev]) -> bool {
    short.len() <= long.len() && short == &long[..short.len()]
}

fn mk(sub: u64, class: &str, summary: String, case: &Case, knobs: &Knobs, strat: &Strategy, point: Value, full: &[Ev], got: &RunOut) -> Violation {
    Violation {
        property: "C16".into(),
        class: class.into(),
        summary,
        subseed: sub,
        replay: json!({"engine": "iosim", "kind": "c16", "case": case.to_json(), "knobs": knobs_json(knobs), "strategy": strat.to_json(), "crash_point": point,
            "uninterrupted": evs_json(full), "observed": evs_json(&got.evs), "observed_result": format!("{:?}", got.res), "finish_calls": got.finish_calls, "delivered_after_answer": got.after_answer}),
    }
}

/// The strategy class name used in violation classes: which search loop ran.
fn loop_name(case: &Case, strat: &Strategy) -> String {
    let ml = build_matcher(case).map(|m| build_searcher(&case.cfg, &Knobs::default()).multi_line_with_matcher(&m)).unwrap_or(false);
    format!("{}{}", strat.kind(), if ml { "/multi-line" } else { "" })
}

/// Checks one (strategy, crash point); returns a violation class and summary.
pub fn check_point(case: &Case, knobs: &Knobs, strat: &Strategy, full: &RunOut, point: &Value) -> Option<(String, String, RunOut)> {
    let body = &full.evs[..full.evs.len() - 1]; // without Finish
    let lp = loop_name(case, strat);
    match point["type"].as_str().unwrap_or("") {
        "sink" => {
            let k = point["k"].as_u64().unwrap() as usize;
            let stop = point["answer"].as_str() == Some("stop");
            let got = run(case, knobs, strat, Some((k, if stop { Answer::Stop } else { Answer::Error })), None);
            if got.panicked.is_some() {
                return Some((format!("panic:{lp}"), format!("panic with sink answer at event {k}: {:?}", got.panicked), got));
            }
            let expect = &body[..=k.min(body.len() - 1)];
            if stop {
                let fin = got.evs.last().map_or(false, |e| e.is_finish());
                let gb = if fin { &got.evs[..got.evs.len() - 1] } else { &got.evs[..] };
                if got.res.is_err() {
                    return Some((format!("stop-returned-error:{lp}"), format!("stop at event {k} made the search return {:?}", got.res), got));
                }
                if got.finish_calls != 1 {
                    return Some((format!("stop-finish-count:{lp}"), format!("stop at event {k}: finish called {} times", got.finish_calls), got));
                }
                if gb != expect {
                    let cls = if gb.len() > expect.len() { "delivered-after-stop" } else { "stop-not-prefix" };
                    return Some((format!("{cls}:{lp}"), format!("stop at event {k} ({}): delivered {} events, expected the first {}: got [{}]", body[k].brief(), gb.len(), expect.len(), brief(gb)), got));
                }
            } else {
                match &got.res {
                    Err((kind, m)) if m.contains(TAG_SINK) && *kind == ERR_KINDS[k % ERR_KINDS.len()] => {}
                    r => return Some((format!("sink-error-not-returned:{lp}"), format!("error at event {k}: search returned {r:?}"), got)),
                }
                if got.finish_calls != 0 {
                    return Some((format!("finish-after-error:{lp}"), format!("sink error at event {k}: finish was still called"), got));
                }
                if got.evs != expect {
                    let cls = if got.evs.len() > expect.len() { "delivered-after-error" } else { "error-not-prefix" };
                    return Some((format!("{cls}:{lp}"), format!("sink error at event {k}: delivered {} events, expected {}", got.evs.len(), expect.len()), got));
                }
            }
            None
        }
        "read" => {
            let j = point["j"].as_u64().unwrap() as usize;
            let hard = point["fault"].as_str() == Some("error");
            let Strategy::Reader(h) = strat else { return None };
            let mut h2 = h.clone();
            h2.fault_at = Some((j, if hard { ReadFault::Error } else { ReadFault::Interrupted }));
            let st2 = Strategy::Reader(h2);
            let got = run(case, knobs, &st2, None, None);
            if got.panicked.is_some() {
                return Some((format!("panic:{lp}"), format!("panic with read fault at read {j}: {:?}", got.panicked), got));
            }
            if hard {
                if !got.error_fired {
                    return None; // the search ended before read j was issued
                }
                match &got.res {
                    Err((kind, m)) if m.contains(TAG_READ) && *kind == ERR_KINDS[j % ERR_KINDS.len()] => {}
                    r => return Some((format!("read-error-not-returned:{lp}"), format!("read {j} failed but the search returned {r:?}"), got)),
                }
                if got.finish_calls != 0 {
                    return Some((format!("finish-after-error:{lp}"), format!("read error at read {j}: finish was still called"), got));
                }
                if !is_prefix(&got.evs, body) {
                    return Some((format!("read-error-not-prefix:{lp}"), format!("read error at read {j}: delivered events are not a prefix of the uninterrupted run: [{}]", brief(&got.evs)), got));
                }
            } else {
                // Interrupted: retried (then everything is delivered) or surfaced (then a clean prefix)
                match &got.res {
                    Ok(()) => {
                        if got.evs != full.evs {
                            return Some((format!("interrupted-changes-results:{lp}"), format!("Interrupted at read {j} was absorbed but the results differ"), got));
                        }
                    }
                    Err((k, _)) if *k == std::io::ErrorKind::Interrupted => {
                        if got.finish_calls != 0 || !is_prefix(&got.evs, body) {
                            return Some((format!("interrupted-not-prefix:{lp}"), format!("Interrupted at read {j} surfaced without a clean prefix"), got));
                        }
                    }
                    r => return Some((format!("interrupted-other-error:{lp}"), format!("Interrupted at read {j}: search returned {r:?}"), got)),
                }
            }
            None
        }
        _ => None,
    }
}

pub fn run_case(sub: u64, acc: &mut Acc) {
    let case = gen_case(sub);
    if build_matcher(&case).is_err() {
        acc.probes.inc("matcher-rejected-pattern");
        return;
    }
    let mut rng = Rng::new(sub ^ 0xC16);
    let h = History::plain(Style::gen(&mut rng), rng.next());
    let knobs = crate::c02::gen_knobs(&mut rng);
    let strategies = [(Strategy::Slice, Knobs::default()), (Strategy::Reader(h), knobs)];
    let mut nontrivial = false;
    for (strat, knobs) in strategies.iter() {
        let full = run(&case, knobs, strat, None, None);
        acc.evals += 1;
        if full.res.is_err() || full.panicked.is_some() || !full.evs.last().map_or(false, |e| e.is_finish()) {
            acc.violations.push(mk(sub, &format!("uninterrupted-run-failed:{}", strat.kind()), format!("{:?} {:?}", full.res, full.panicked), &case, knobs, strat, json!(null), &full.evs, &full));
            continue;
        }
        let lp = loop_name(&case, strat);
        acc.styles.inc(&lp);
        let n = full.evs.len() - 1;
        if n > 2 {
            nontrivial = true;
        }
        let mut points: Vec<Value> = vec![];
        for k in 0..n {
            for a in ["stop", "error"] {
                points.push(json!({"type": "sink", "k": k, "answer": a}));
            }
        }
        if let Strategy::Reader(_) = strat {
            // all read indices when there are at most 160, else the first
            // and last 40 plus 80 seeded ones
            let nlog = full.log.len();
            let js: Vec<usize> = if nlog <= 160 {
                (0..nlog).collect()
            } else {
                let mut v: Vec<usize> = (0..40).chain(nlog - 40..nlog).collect();
                for _ in 0..80 {
                    v.push(40 + rng.below(nlog - 80));
                }
                v.sort();
                v.dedup();
                acc.probes.inc("read-crash-points-sampled(not exhaustive)");
                v
            };
            for j in js {
                points.push(json!({"type": "read", "j": j, "fault": "error"}));
                points.push(json!({"type": "read", "j": j, "fault": "interrupted"}));
            }
        }
        for p in points {
            acc.evals += 1;
            match p["type"].as_str() {
                Some("sink") => {
                    let k = p["k"].as_u64().unwrap() as usize;
                    let kind = match &full.evs[k] {
                        Ev::Begin => "begin",
                        Ev::Match { .. } => "match",
                        Ev::Ctx { .. } => "context",
                        Ev::Break => "separator",
                        Ev::Binary(_) => "binary-notice",
                        Ev::Finish { .. } => "finish",
                    };
                    acc.faults.inc(&format!("sink-{}-at-{kind}", p["answer"].as_str().unwrap()));
                }
                _ => acc.faults.inc(&format!("read-{}", p["fault"].as_str().unwrap())),
            }
            if let Some((class, summary, got)) = check_point(&case, knobs, strat, &full, &p) {
                let n_same = acc.violations.iter().filter(|x| x.class == class).count();
                if n_same < 25 {
                    let (c2, p2) = if n_same < 2 { minimise(&case, knobs, strat, &p, &class) } else { (case.clone(), p.clone()) };
                    let full2 = run(&c2, knobs, strat, None, None);
                    let got2 = check_point(&c2, knobs, strat, &full2, &p2).map(|x| x.2).unwrap_or(got);
                    acc.violations.push(mk(sub, &class, summary, &c2, knobs, strat, p2, &full2.evs, &got2));
                }
            }
        }
    }
    if nontrivial {
        acc.distinct.insert(fnv(&case.data) ^ fnv(case.pattern.as_bytes()).rotate_left(9) ^ case.cfg.class().wrapping_mul(0x9E3779B97F4A7C15));
    }
    if acc.samples.len() < 2 && nontrivial {
        let full = run(&case, &Knobs::default(), &Strategy::Slice, None, None);
        acc.samples.push(json!({"subseed": sub, "pattern": case.pattern, "cfg": case.cfg.to_json(), "input": show(&case.data), "uninterrupted_events": brief(&full.evs),
            "crash_points": format!("every event index 0..{} x {{stop,error}} for slice and reader; every read index x {{error,interrupted}}", full.evs.len() - 1)}));
    }
    // the convenience sinks of grep-searcher (closures over matched lines): a stop answered at the
    // k-th matched line ends the search there, also when that line is not valid UTF-8
    if case.cfg.bin == Bin::None && rng.chance(1, 3) {
        let mut c = case.clone();
        c.cfg.line_number = true;
        c.cfg.passthru = false;
        let lossy_data = {
            // make one byte of every third line invalid UTF-8 (not inside a "foo")
            let mut d = c.data.clone();
            let mut i = 0;
            let mut line = 0;
            while i < d.len() {
                if d[i] == b'\n' {
                    line += 1;
                } else if line % 3 == 0 && matches!(d[i], b'b' | b'x' | b'z' | b'q') {
                    d[i] = 0xFF;
                    line += 1000003; // one per line
                }
                i += 1;
            }
            d
        };
        for (name, data) in [("bytes", c.data.clone()), ("lossy", lossy_data)] {
            let cc = Case { data: data.clone(), ..c.clone() };
            let Ok(matcher) = build_matcher(&cc) else { continue };
            let full = run(&cc, &Knobs::default(), &Strategy::Slice, None, None);
            let total = full.evs.iter().filter(|e| matches!(e, Ev::Match { .. })).count();
            if full.res.is_err() || total == 0 {
                continue;
            }
            for k in [1usize, (total + 1) / 2, total] {
                for reader in [false, true] {
                    acc.evals += 1;
                    acc.faults.inc("closure-sink-stop-at-kth-match");
                    let mut calls = 0usize;
                    let mut searcher = build_searcher(&cc.cfg, &Knobs::default());
                    let res = {
                        let f = |_ln: u64, _l: &[u8]| -> Result<bool, std::io::Error> {
                            calls += 1;
                            Ok(calls < k)
                        };
                        let h = History::plain(Style::gen(&mut rng), rng.next());
                        match (name, reader) {
                            ("bytes", false) => searcher.search_slice(&matcher, &data, grep_searcher::sinks::Bytes(f)),
                            ("bytes", true) => searcher.search_reader(&matcher, SimReader::new(&data, &h, b'\n'), grep_searcher::sinks::Bytes(f)),
                            (_, false) => {
                                let mut g = f;
                                searcher.search_slice(&matcher, &data, grep_searcher::sinks::Lossy(|ln, l: &str| g(ln, l.as_bytes())))
                            }
                            (_, true) => {
                                let mut g = f;
                                searcher.search_reader(&matcher, SimReader::new(&data, &h, b'\n'), grep_searcher::sinks::Lossy(|ln, l: &str| g(ln, l.as_bytes())))
                            }
                        }
                    };
                    // (in multi-line mode one call may cover several matched lines: only "not more than asked" is demanded there)
                    let ok = res.is_ok() && calls <= k && (calls == k.min(total) || cc.cfg.multi_line);
                    if !ok && acc.violations.iter().filter(|v| v.class.starts_with("closure-sink")).count() < 10 {
                        acc.violations.push(Violation {
                            property: "C16".into(),
                            class: format!("closure-sink-stop-ignored:{name}"),
                            summary: format!("sinks::{} asked to stop at matched line {k} of {total}: the closure was called {calls} times, result {:?}", if name == "bytes" { "Bytes" } else { "Lossy" }, res.map_err(|e| e.to_string())),
                            subseed: sub,
                            replay: json!({"engine": "iosim", "kind": "c16", "case": cc.to_json(), "knobs": knobs_json(&Knobs::default()), "strategy": Strategy::Slice.to_json(), "crash_point": Value::Null, "closure_sink": name, "k": k}),
                        });
                    }
                }
            }
        }
    }
    // printers: match limit for every N, failing writer
    // (also with multi-line mode requested, as long as the pattern cannot match a line terminator:
    // the searcher then works line by line under a multi-line configuration)
    let really_ml = case.cfg.multi_line && build_matcher(&case).map(|m| searcher_is_multi_line(&case, &m)).unwrap_or(true);
    if case.cfg.bin == Bin::None && !really_ml && case.cfg.term == Term::Lf {
        printer_leg(sub, &case, &mut rng, acc);
    }
}

fn minimise(case: &Case, knobs: &Knobs, strat: &Strategy, point: &Value, class: &str) -> (Case, Value) {
    // drop lines from the end while the same class persists at some crash
    // point of the same type and answer
    let mut c = case.clone();
    let mut p = point.clone();
    let fails = |c: &Case, p: &Value| -> Option<Value> {
        if build_matcher(c).is_err() {
            return None;
        }
        let full = run(c, knobs, strat, None, None);
        if full.res.is_err() || !full.evs.last().map_or(false, |e| e.is_finish()) {
            return None;
        }
        let n = full.evs.len() - 1;
        let cands: Vec<Value> = if p["type"] == "sink" {
            (0..n).map(|k| json!({"type": "sink", "k": k, "answer": p["answer"]})).collect()
        } else {
            (0..full.log.len()).map(|j| json!({"type": "read", "j": j, "fault": p["fault"]})).collect()
        };
        for cand in cands {
            if let Some((cl, _, _)) = check_point(c, knobs, strat, &full, &cand) {
                if cl == class {
                    return Some(cand);
                }
            }
        }
        None
    };
    let term = c.cfg.term.byte();
    let mut budget = 60;
    loop {
        let lines = crate::model::split_lines(&c.data, term);
        let mut changed = false;
        for i in (0..lines.len()).rev() {
            if budget == 0 {
                break;
            }
            budget -= 1;
            let (s0, e0) = lines[i];
            let mut c2 = c.clone();
            c2.data = [&c.data[..s0], &c.data[e0..]].concat();
            if let Some(p2) = fails(&c2, &p) {
                c = c2;
                p = p2;
                changed = true;
                break;
            }
        }
        if !changed || budget == 0 {
            break;
        }
    }
    (c, p)
}

fn printed_line_numbers(out: &[u8]) -> Vec<u64> {
    let mut v = vec![];
    for l in out.split(|&b| b == b'\n') {
        let digits: Vec<u8> = l.iter().cloned().take_while(|b| b.is_ascii_digit()).collect();
        if !digits.is_empty() && matches!(l.get(digits.len()), Some(b':') | Some(b'-')) {
            v.push(String::from_utf8(digits).unwrap().parse().unwrap());
        }
    }
    v
}

fn printer_leg(sub: u64, case: &Case, rng: &mut Rng, acc: &mut Acc) {
    let mut c = case.clone();
    c.cfg.line_number = true;
    let m = model(&c);
    let matcher = build_matcher(&c).unwrap();
    let match_lns: Vec<u64> = m.evs.iter().filter_map(|e| if let Ev::Match { ln, .. } = e { *ln } else { None }).collect();
    let all_lns: Vec<u64> = m.evs.iter().filter_map(|e| match e {
        Ev::Match { ln, .. } | Ev::Ctx { ln, .. } => *ln,
        _ => None,
    }).collect();
    let mk = |class: &str, summary: String, n: u64, printer: &str, out: &[u8]| Violation {
        property: "C16".into(),
        class: class.into(),
        summary,
        subseed: sub,
        replay: json!({"engine": "iosim", "kind": "c16-printer", "case": c.to_json(), "printer": printer, "max_matches": n, "printed": show(out), "model_events": evs_json(&m.evs)}),
    };
    for n in 0..=(match_lns.len() as u64 + 1) {
        let expect: Vec<u64> = if n == 0 {
            vec![]
        } else if (n as usize) <= match_lns.len() {
            // (passthru: every other line is context, and nothing is owed after the N-th match)
            let cutoff = match_lns[n as usize - 1] + if c.cfg.passthru { 0 } else { c.cfg.a as u64 };
            all_lns.iter().cloned().filter(|&l| l <= cutoff).collect()
        } else {
            all_lns.clone()
        };
        for reader in [false, true] {
            acc.evals += 1;
            acc.faults.inc("printer-match-limit");
            // Standard
            let mut printer = StandardBuilder::new().max_matches(Some(n)).build_no_color(SimWriter::new(None));
            let mut searcher = build_searcher(&c.cfg, &Knobs { capacity: if reader { Some(CAPACITIES[rng.below(6)]) } else { None }, ..Knobs::default() });
            let res = if reader {
                let h = History::plain(Style::gen(rng), rng.next());
                searcher.search_reader(&matcher, SimReader::new(&c.data, &h, b'\n'), printer.sink(&matcher))
            } else {
                searcher.search_slice(&matcher, &c.data, printer.sink(&matcher))
            };
            let out = printer.into_inner().into_inner().out.clone();
            let got = printed_line_numbers(&out);
            if res.is_err() || got != expect {
                if acc.violations.iter().filter(|v| v.class == "match-limit:standard").count() < 10 {
                    acc.violations.push(mk("match-limit:standard", format!("max_matches={n} A={} B={}: printed lines {:?}, expected {:?} (first N matches plus their trailing context) res={:?}", c.cfg.a, c.cfg.b, got, expect, res.map_err(|e| e.to_string())), n, "standard", &out));
                }
            }
            // JSON
            let mut printer = JSONBuilder::new().max_matches(Some(n)).build(SimWriter::new(None));
            let mut searcher = build_searcher(&c.cfg, &Knobs::default());
            let res = searcher.search_slice(&matcher, &c.data, printer.sink(&matcher));
            let out = printer.into_inner().out.clone();
            let mut got = vec![];
            for l in out.split(|&b| b == b'\n').filter(|l| !l.is_empty()) {
                if let Ok(v) = serde_json::from_slice::<Value>(l) {
                    if v["type"] == "match" || v["type"] == "context" {
                        got.push(v["data"]["line_number"].as_u64().unwrap_or(0));
                    }
                }
            }
            if res.is_err() || got != expect {
                if acc.violations.iter().filter(|v| v.class == "match-limit:json").count() < 10 {
                    acc.violations.push(mk("match-limit:json", format!("max_matches={n}: JSON printer reported lines {:?}, expected {:?}", got, expect), n, "json", &out));
                }
            }
            // Summary (count), with and without statistics (which switch on extra bookkeeping), and
            // count-matches: a limit of N matching lines, however many matches those lines hold
            use grep_matcher::Matcher;
            let ml = searcher_is_multi_line(&c, &matcher);
            for (kind, stats) in [(SummaryKind::Count, false), (SummaryKind::Count, true), (SummaryKind::CountMatches, true)] {
                if kind == SummaryKind::CountMatches && (ml || c.cfg.invert) {
                    continue;
                }
                let mut printer = SummaryBuilder::new().kind(kind).stats(stats).max_matches(Some(n)).build_no_color(SimWriter::new(None));
                let mut searcher = build_searcher(&c.cfg, &Knobs::default());
                let res = searcher.search_slice(&matcher, &c.data, printer.sink(&matcher));
                let out = printer.into_inner().into_inner().out.clone();
                let count: Option<u64> = String::from_utf8_lossy(&out).trim().parse().ok();
                let want = if kind == SummaryKind::Count {
                    n.min(match_lns.len() as u64)
                } else {
                    // matches inside the first n matching lines
                    let lines: Vec<&[u8]> = c.data.split_inclusive(|&b| b == b'\n').collect();
                    let mut total = 0u64;
                    for &ln in match_lns.iter().take(n as usize) {
                        let l = lines[ln as usize - 1];
                        let l = if l.ends_with(b"\n") { &l[..l.len() - 1] } else { l };
                        let mut k = 0u64;
                        let _ = matcher.find_iter(l, |_| {
                            k += 1;
                            true
                        });
                        total += k.max(1);
                    }
                    total
                };
                let ok = match count {
                    Some(cn) => cn == want,
                    None => want == 0 && out.is_empty(),
                };
                if res.is_err() || !ok {
                    let class = format!("match-limit:summary{}{}", if kind == SummaryKind::CountMatches { "-count-matches" } else { "" }, if stats { "+stats" } else { "" });
                    if acc.violations.iter().filter(|v| v.class == class).count() < 10 {
                        acc.violations.push(mk(&class, format!("max_matches={n}: count printed {:?}, expected {want}", String::from_utf8_lossy(&out)), n, "summary", &out));
                    }
                }
            }
        }
    }
    // one sink object used for two searches in a row (a library caller may do that): the second
    // search must print what a fresh sink prints
    {
        let other: Vec<u8> = {
            let mut d = b"foo first\nbar\nfoo foo\nx\nfoo\n".to_vec();
            d.extend_from_slice(&c.data[..c.data.len().min(200)]);
            if !d.ends_with(b"\n") {
                d.push(b'\n');
            }
            d
        };
        for n in [1u64, 2, match_lns.len() as u64 + 1] {
            // (the JSON sink is left out: it never re-arms its "begin" message and reports running
            // totals in its "end" message when used again - outside what this property speaks about)
            for which in ["standard", "summary-count", "summary-count+stats"] {
                acc.evals += 1;
                acc.faults.inc("printer-sink-reused-for-a-second-search");
                macro_rules! twice {
                    ($mk:expr, $inner:expr) => {{
                        let fresh = |data: &[u8]| {
                            let mut p = $mk;
                            let mut searcher = build_searcher(&c.cfg, &Knobs::default());
                            let _ = searcher.search_slice(&matcher, data, p.sink(&matcher));
                            let w: SimWriter = $inner(p);
                            w.out
                        };
                        let mut expect = fresh(&other);
                        expect.extend_from_slice(&fresh(&c.data));
                        let mut p = $mk;
                        {
                            let mut sink = p.sink(&matcher);
                            let mut searcher = build_searcher(&c.cfg, &Knobs::default());
                            let _ = searcher.search_slice(&matcher, &other, &mut sink);
                            let _ = searcher.search_slice(&matcher, &c.data, &mut sink);
                        }
                        let w: SimWriter = $inner(p);
                        (expect, w.out)
                    }};
                }
                let (expect, got) = match which {
                    "standard" => twice!(StandardBuilder::new().max_matches(Some(n)).build_no_color(SimWriter::new(None)), |p: grep_printer::Standard<termcolor::NoColor<SimWriter>>| p.into_inner().into_inner()),
                    "summary-count" => twice!(SummaryBuilder::new().kind(SummaryKind::Count).max_matches(Some(n)).build_no_color(SimWriter::new(None)), |p: grep_printer::Summary<termcolor::NoColor<SimWriter>>| p.into_inner().into_inner()),
                    "summary-count+stats" => twice!(SummaryBuilder::new().kind(SummaryKind::Count).stats(true).max_matches(Some(n)).build_no_color(SimWriter::new(None)), |p: grep_printer::Summary<termcolor::NoColor<SimWriter>>| p.into_inner().into_inner()),
                    _ => twice!(JSONBuilder::new().max_matches(Some(n)).build(SimWriter::new(None)), |p: grep_printer::JSON<SimWriter>| p.into_inner()),
                };
                let (expect, got) = if which == "json" { (mask_json_times(&expect), mask_json_times(&got)) } else { (expect, got) };
                if expect != got {
                    let class = format!("sink-reuse:{which}");
                    if acc.violations.iter().filter(|v| v.class == class).count() < 10 {
                        let d = expect.iter().zip(got.iter()).take_while(|(a, b)| a == b).count();
                        let from = d.saturating_sub(60);
                        acc.violations.push(mk(&class, format!("max_matches={n}: one {which} sink used for two searches; output differs from that of two fresh sinks at byte {d}: printed ...{:?}, fresh sinks ...{:?}", show(&got[from..got.len().min(d + 120)]), show(&expect[from..expect.len().min(d + 120)])), n, which, &got));
                    }
                }
            }
        }
    }
    // One printer, a new sink per file (what rg does): the search of the first file fails at a
    // seeded read after part of its results were printed (completion is never signalled after an
    // error) - the next file on the same printer is printed as by a printer that has written
    // something before: separator, heading, its own results, nothing of the failed search's state.
    for which in ["standard", "json", "summary-count"] {
        acc.evals += 1;
        acc.faults.inc("printer-reused-after-a-failed-search");
        let first: Vec<u8> = {
            let mut d = b"foo first\nbar\nfoo foo\nx\nfoo\n".to_vec();
            for i in 0..40 {
                d.extend_from_slice(format!("line {i} of the first file with foo in it\n").as_bytes());
            }
            d
        };
        let mut h = History::plain(Style::parse("fixed16"), rng.next());
        h.fault_at = Some((3 + rng.below(20), ReadFault::Error));
        let knobs = Knobs { capacity: Some(64), ..Knobs::default() };
        macro_rules! seq {
            ($mk:expr, $inner:expr, $len:expr) => {{
                let fresh_second = {
                    let mut p = $mk;
                    let mut searcher = build_searcher(&c.cfg, &Knobs::default());
                    // the first file searched to the end
                    let _ = searcher.search_slice(&matcher, &first, p.sink_with_path(&matcher, "first"));
                    let n0: usize = $len(&mut p);
                    let _ = searcher.search_slice(&matcher, &c.data, p.sink_with_path(&matcher, "second"));
                    let w: SimWriter = $inner(p);
                    w.out[n0..].to_vec()
                };
                let mut p = $mk;
                let r1 = build_searcher(&c.cfg, &knobs).search_reader(&matcher, SimReader::new(&first, &h, b'\n'), p.sink_with_path(&matcher, "first"));
                let n1: usize = $len(&mut p);
                let mut searcher = build_searcher(&c.cfg, &Knobs::default());
                let _ = searcher.search_slice(&matcher, &c.data, p.sink_with_path(&matcher, "second"));
                let w: SimWriter = $inner(p);
                (r1.is_err(), n1, w.out[n1..].to_vec(), fresh_second)
            }};
        }
        let (failed, n1, got, expect) = match which {
            "standard" => seq!(StandardBuilder::new().heading(true).separator_search(Some(b"SEP".to_vec())).build_no_color(SimWriter::new(None)), |p: grep_printer::Standard<termcolor::NoColor<SimWriter>>| p.into_inner().into_inner(), |p: &mut grep_printer::Standard<termcolor::NoColor<SimWriter>>| p.get_mut().get_ref().out.len()),
            "summary-count" => seq!(SummaryBuilder::new().kind(SummaryKind::Count).build_no_color(SimWriter::new(None)), |p: grep_printer::Summary<termcolor::NoColor<SimWriter>>| p.into_inner().into_inner(), |p: &mut grep_printer::Summary<termcolor::NoColor<SimWriter>>| p.get_mut().get_ref().out.len()),
            _ => seq!(JSONBuilder::new().build(SimWriter::new(None)), |p: grep_printer::JSON<SimWriter>| p.into_inner(), |p: &mut grep_printer::JSON<SimWriter>| p.get_mut().out.len()),
        };
        let (got, expect) = if which == "json" { (mask_json_times(&got), mask_json_times(&expect)) } else { (got, expect) };
        // (judged when the first search did fail after printing something)
        if failed && n1 > 0 && got != expect {
            let class = format!("printer-reused-after-failed-search:{which}");
            if acc.violations.iter().filter(|v| v.class == class).count() < 10 {
                let d = expect.iter().zip(got.iter()).take_while(|(a, b)| a == b).count();
                let from = d.saturating_sub(60);
                acc.violations.push(mk(&class, format!("{which} printer: first file failed at read {:?} after {n1} bytes were printed; the second file's output differs from that of a printer whose first search ended normally, at byte {d}: printed ...{:?}, expected ...{:?}", h.fault_at, show(&got[from..got.len().min(d + 120)]), show(&expect[from..expect.len().min(d + 120)])), 0, which, &got));
            }
        }
    }
    // a writer that takes 1-7 bytes per call and asks for a retry (Interrupted) one call in four:
    // every printer still delivers exactly the bytes it delivers to a well-behaved writer
    for which in ["standard", "summary-count", "json"] {
        acc.evals += 1;
        acc.faults.inc("writer-short-and-interrupted-writes");
        macro_rules! both {
            ($mk:expr, $inner:expr) => {{
                let run1 = |w: SimWriter| {
                    let mut p = $mk(w);
                    let mut searcher = build_searcher(&c.cfg, &Knobs::default());
                    let r = searcher.search_slice(&matcher, &c.data, p.sink(&matcher));
                    let w: SimWriter = $inner(p);
                    (w.out, r.map_err(|e| e.to_string()))
                };
                (run1(SimWriter::new(None)), run1(SimWriter::flaky(sub ^ 0x77)))
            }};
        }
        let ((good, _), (flaky, res)) = match which {
            "standard" => both!(|w| StandardBuilder::new().build_no_color(w), |p: grep_printer::Standard<termcolor::NoColor<SimWriter>>| p.into_inner().into_inner()),
            "summary-count" => both!(|w| SummaryBuilder::new().kind(SummaryKind::Count).build_no_color(w), |p: grep_printer::Summary<termcolor::NoColor<SimWriter>>| p.into_inner().into_inner()),
            _ => both!(|w| JSONBuilder::new().build(w), |p: grep_printer::JSON<SimWriter>| p.into_inner()),
        };
        let (good, flaky) = if which == "json" { (mask_json_times(&good), mask_json_times(&flaky)) } else { (good, flaky) };
        if res.is_err() || good != flaky {
            let class = format!("flaky-writer:{which}");
            if acc.violations.iter().filter(|v| v.class == class).count() < 10 {
                let d = good.iter().zip(flaky.iter()).take_while(|(a, b)| a == b).count();
                acc.violations.push(mk(&class, format!("{which} printer over a writer with short and interrupted writes: result {:?}, output differs from the well-behaved writer's at byte {d} ({} vs {} bytes)", res, flaky.len(), good.len()), 0, which, &flaky));
            }
        }
    }
    // failing writer: the search returns the writer's error and the output is a k-byte prefix
    let mut printer = StandardBuilder::new().build_no_color(SimWriter::new(None));
    let mut searcher = build_searcher(&c.cfg, &Knobs::default());
    let _ = searcher.search_slice(&matcher, &c.data, printer.sink(&matcher));
    let full_out = printer.into_inner().into_inner().out.clone();
    if !full_out.is_empty() {
        for _ in 0..6 {
            let k = rng.below(full_out.len());
            acc.evals += 1;
            acc.faults.inc("writer-error-after-k-bytes");
            let mut printer = StandardBuilder::new().build_no_color(SimWriter::new(Some(k)));
            let mut searcher = build_searcher(&c.cfg, &Knobs::default());
            let res = searcher.search_slice(&matcher, &c.data, printer.sink(&matcher));
            let w = printer.into_inner().into_inner();
            let ok = matches!(&res, Err(e) if e.to_string().contains(TAG_WRITE)) && w.out[..] == full_out[..k] && w.writes_after_failure == 0;
            if !ok && acc.violations.iter().filter(|v| v.class == "writer-failure").count() < 10 {
                acc.violations.push(mk("writer-failure", format!("writer failing after {k} bytes: result {:?}, {} bytes written, {} writes attempted after the failure", res.map_err(|e| e.to_string()), w.out.len(), w.writes_after_failure), k as u64, "standard", &w.out));
            }
        }
    }
}

/// JSON end messages carry statistics (elapsed times, running totals): cut them off.
fn mask_json_times(b: &[u8]) -> Vec<u8> {
    let s = String::from_utf8_lossy(b).into_owned();
    let mut out = String::new();
    for line in s.lines() {
        // (the statistics of an end message are running totals of the sink object, by design)
        if let Some(i) = line.find("\"stats\"") {
            out.push_str(&line[..i]);
            out.push_str("<stats masked>");
        } else {
            out.push_str(line);
        }
        out.push('\n');
    }
    out.into_bytes()
}

/// True if the searcher really uses its multi-line strategy for this case.
fn searcher_is_multi_line(c: &Case, matcher: &grep_regex::RegexMatcher) -> bool {
    build_searcher(&c.cfg, &Knobs::default()).multi_line_with_matcher(matcher)
}

pub fn replay(v: &Value) -> Option<(String, String)> {
    let case = Case::from_json(&v["case"]);
    if v["kind"] == "c16-printer" {
        let mut acc = Acc::new();
        let mut rng = Rng::new(v["subseed"].as_u64().unwrap_or(1) ^ 0xC16);
        printer_leg(v["subseed"].as_u64().unwrap_or(1), &case, &mut rng, &mut acc);
        return acc.violations.first().map(|x| (x.class.clone(), x.summary.clone()));
    }
    if v["closure_sink"].is_string() {
        // re-run the whole generated case and report the closure-sink verdict
        let mut acc = Acc::new();
        run_case(v["subseed"].as_u64().unwrap_or(1), &mut acc);
        return acc.violations.iter().find(|x| x.class.starts_with("closure-sink")).map(|x| (x.class.clone(), x.summary.clone()));
    }
    let knobs = knobs_from_json(&v["knobs"]);
    let strat = Strategy::from_json(&v["strategy"]);
    let full = run(&case, &knobs, &strat, None, None);
    println!("replay: uninterrupted: {}", brief(&full.evs));
    if v["crash_point"].is_null() {
        return if full.res.is_err() { Some(("uninterrupted-run-failed".into(), format!("{:?}", full.res))) } else { None };
    }
    let r = check_point(&case, &knobs, &strat, &full, &v["crash_point"]);
    if let Some((_, _, got)) = &r {
        println!("replay: crash point {} -> {} result {:?} finish_calls={}", v["crash_point"], brief(&got.evs), got.res, got.finish_calls);
    }
    r.map(|(c, s, _)| (c, s))
}
