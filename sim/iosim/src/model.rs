//! Executable grep reference model (C03). Shares no code with the searcher:
//! it splits the input at the terminator byte, decides each line with the
//! `regex` crate on the line's content, and derives the event stream from the
//! textbook definition of context windows.

use crate::case::{Case, Term};
use crate::sim::Ev;

pub struct ModelOut {
    pub evs: Vec<Ev>,
    /// Index (into lines) of each delivered line event, parallel to evs (None for non-line events).
    pub stopped_early: bool,
    pub selected: Vec<bool>,
    pub lines: Vec<(usize, usize)>,
}

pub fn split_lines(data: &[u8], term: u8) -> Vec<(usize, usize)> {
    let mut lines = vec![];
    let mut s = 0;
    for (i, &b) in data.iter().enumerate() {
        if b == term {
            lines.push((s, i + 1));
            s = i + 1;
        }
    }
    if s < data.len() {
        lines.push((s, data.len()));
    }
    lines
}

pub fn content<'a>(line: &'a [u8], term: Term) -> &'a [u8] {
    let tb = term.byte();
    let mut l = line;
    if l.last() == Some(&tb) {
        l = &l[..l.len() - 1];
        if term == Term::Crlf && l.last() == Some(&b'\r') {
            l = &l[..l.len() - 1];
        }
    }
    l
}

thread_local!(static REGEXES: std::cell::RefCell<std::collections::HashMap<(String, bool), regex::bytes::Regex>> = Default::default());

pub fn model_regex(case: &Case) -> regex::bytes::Regex {
    let crlf = case.cfg.term == Term::Crlf;
    REGEXES.with(|m| {
        m.borrow_mut()
            .entry((case.pattern.clone(), crlf))
            .or_insert_with(|| regex::bytes::RegexBuilder::new(&case.pattern).multi_line(true).crlf(crlf).build().expect("model regex"))
            .clone()
    })
}

pub fn model(case: &Case) -> ModelOut {
    let cfg = &case.cfg;
    let data = &case.data[..];
    let re = model_regex(case);
    let lines = split_lines(data, cfg.term.byte());
    let sel: Vec<bool> = lines.iter().map(|&(s, e)| re.is_match(content(&data[s..e], cfg.term)) != cfg.invert).collect();
    let (a, b) = if cfg.passthru { (0, 0) } else { (cfg.a, cfg.b) };
    let any_context = a > 0 || b > 0;
    let ln = |i: usize| if cfg.line_number { Some(i as u64 + 1) } else { None };
    let mut evs = vec![Ev::Begin];
    let mut last_emitted: Option<usize> = None;
    let mut last_sel: Option<usize> = None;
    let mut stopped_at: Option<usize> = None;
    for i in 0..lines.len() {
        let (s, e) = lines[i];
        let bytes = data[s..e].to_vec();
        let ev = if sel[i] {
            Some(Ev::Match { ln: ln(i), off: s as u64, bytes })
        } else if last_sel.map_or(false, |j| i - j <= a) {
            Some(Ev::Ctx { kind: 1, ln: ln(i), off: s as u64, bytes })
        } else if cfg.passthru {
            Some(Ev::Ctx { kind: 2, ln: ln(i), off: s as u64, bytes })
        } else if (1..=b).any(|d| i + d < lines.len() && sel[i + d]) && !(cfg.stop_nm && last_sel.is_some()) {
            Some(Ev::Ctx { kind: 0, ln: ln(i), off: s as u64, bytes })
        } else {
            None
        };
        if let Some(ev) = ev {
            if let Some(l) = last_emitted {
                if any_context && i > l + 1 {
                    evs.push(Ev::Break);
                }
            }
            evs.push(ev);
            last_emitted = Some(i);
        }
        if sel[i] {
            last_sel = Some(i);
        } else if cfg.stop_nm && last_sel.is_some() {
            stopped_at = Some(e);
            break;
        }
    }
    evs.push(Ev::Finish { bytes: stopped_at.unwrap_or(data.len()) as u64, bin: None });
    ModelOut { evs, stopped_early: stopped_at.is_some(), selected: sel, lines }
}
