//! C17 — transcoded input is searched as its UTF-8 equivalent, independent of
//! strategy, read fragmentation and buffer sizes.

use crate::c02::{digest_run, gen_knobs, Acc};
use crate::case::*;
use crate::run::*;
use crate::sim::*;
use encoding_rs::{Encoding, UTF_16BE, UTF_16LE, UTF_8};
use serde_json::{json, Value};
use simcore::*;
use std::path::Path;

const WORDS: [&str; 14] = ["foo", "bar", "", "x", "fo", "caf\u{e9}", "\u{65e5}\u{672c}\u{8a9e}", "\u{1F600}", "\u{f1}and\u{fa}", "foo\u{1F600}bar", "\u{3042}\u{3044}", "\u{d55c}\u{ae00}", "zzzzzzzzzzzzzzzz", "o"];
const PATTERNS: [&str; 8] = ["foo", "fo+", "^foo", "bar$", "\u{65e5}\u{672c}", "caf.", "\u{1F600}", "^$"];

#[derive(Clone, Debug)]
pub struct EncCase {
    pub case: Case,
    /// How the bytes were produced (for samples).
    pub recipe: String,
}

fn utf16(text: &str, be: bool, out: &mut Vec<u8>) {
    for u in text.encode_utf16() {
        out.extend_from_slice(&if be { u.to_be_bytes() } else { u.to_le_bytes() });
    }
}

pub fn gen_case(sub: u64) -> EncCase {
    let mut rng = Rng::new(sub);
    // 1 in 120 cases is large: the encoded file exceeds the 64 KiB buffers and, being mostly
    // CJK text, its UTF-8 transcoding is longer than the file itself
    let huge = rng.chance(1, 120);
    let nl = if huge { 4000 + rng.below(5000) } else if rng.chance(1, 16) { 300 + rng.below(1500) } else { rng.below(40) };
    let source = if huge { [0, 1, 3, 4, 6][rng.below(5)] } else { rng.below(10) };
    // by-label encodings (source 6): the label decides which words can be encoded
    const LABELS: [&str; 12] = ["windows-1252", "shift_jis", "euc-kr", "iso-2022-jp", "euc-jp", "gbk", "big5", "gb18030", "koi8-r", "iso-8859-2", "windows-1251", "latin1"];
    let by_label = LABELS[rng.below(LABELS.len())];
    // which characters are available depends on the target encoding
    let mut pool: Vec<&str> = match source {
        6 | 7 | 8 => {
            let enc = Encoding::for_label(by_label.as_bytes()).unwrap();
            WORDS.iter().cloned().filter(|w| !enc.encode(w).2).collect()
        }
        _ => WORDS.to_vec(),
    };
    if huge {
        // mostly words outside ASCII (3 bytes of UTF-8 for 2 bytes of UTF-16 / 1-2 bytes of a legacy encoding)
        let wide: Vec<&str> = pool.iter().cloned().filter(|w| !w.is_ascii()).collect();
        for _ in 0..3 {
            pool.extend(wide.iter().cloned());
        }
    }
    let mut text = String::new();
    if rng.chance(1, 40) {
        text.push('\u{feff}'); // content that itself starts with U+FEFF
    } else if rng.chance(1, 40) {
        text.push('\0'); // content whose first character is U+0000 (FF FE 00 00 looks like a UTF-32 mark)
    }
    for _ in 0..nl {
        for w in 0..rng.below(4) {
            if w > 0 {
                text.push(' ');
            }
            text.push_str(pool[rng.below(pool.len())]);
        }
        text.push('\n');
    }
    if !text.is_empty() && rng.chance(1, 3) {
        text.pop();
    }
    let mut data = vec![];
    let mut label: Option<String> = None;
    let recipe;
    let mut malformed = |data: &mut Vec<u8>, rng: &mut Rng, be: bool| {
        // lone surrogates and an odd trailing byte
        let mut how = vec![];
        if data.len() >= 4 && rng.chance(1, 4) {
            let at = 2 + 2 * rng.below((data.len() - 2) / 2);
            let unit: u16 = if rng.chance(1, 2) { 0xD800 } else { 0xDC00 };
            let b = if be { unit.to_be_bytes() } else { unit.to_le_bytes() };
            data.splice(at..at, b);
            how.push("lone-surrogate");
        }
        if rng.chance(1, 5) {
            data.push(b'f');
            how.push("odd-trailing-byte");
        }
        how.join("+")
    };
    match source {
        0 | 1 => {
            let be = source == 1;
            data.extend_from_slice(if be { b"\xFE\xFF" } else { b"\xFF\xFE" });
            utf16(&text, be, &mut data);
            let how = malformed(&mut data, &mut rng, be);
            if rng.chance(1, 4) {
                // a label that the mark must override
                label = Some(["utf-16le", "utf-16be", "shift_jis", "windows-1252"][rng.below(4)].into());
            }
            recipe = format!("utf-16{} with BOM {how} label={label:?}", if be { "be" } else { "le" });
        }
        2 => {
            data.extend_from_slice(b"\xEF\xBB\xBF");
            data.extend_from_slice(text.as_bytes());
            if rng.chance(1, 5) {
                label = Some(["utf-8", "utf-16le", "windows-1252", "shift_jis"][rng.below(4)].into());
            }
            recipe = format!("utf-8 with BOM label={label:?}");
        }
        3 | 4 => {
            let be = source == 4;
            utf16(&text, be, &mut data);
            let how = malformed(&mut data, &mut rng, be);
            label = Some(if be { "utf-16be" } else { "utf-16le" }.into());
            recipe = format!("utf-16{} without BOM, by label {how}", if be { "be" } else { "le" });
        }
        5 => {
            data.extend_from_slice(text.as_bytes());
            label = Some("utf-8".into());
            if rng.chance(1, 4) && !data.is_empty() {
                let at = rng.below(data.len());
                data[at] = 0xFF; // malformed UTF-8 under an explicit label
            }
            recipe = "utf-8 by label".into();
        }
        6 | 7 | 8 => {
            let l = by_label;
            let enc = Encoding::for_label(l.as_bytes()).unwrap();
            let (b, _, _) = enc.encode(&text);
            data.extend_from_slice(&b);
            label = Some(l.into());
            recipe = format!("{l} by label");
        }
        _ => {
            // --encoding none: raw bytes, mark included
            match rng.below(3) {
                0 => {
                    data.extend_from_slice(b"\xFF\xFE");
                    utf16(&text, false, &mut data);
                }
                1 => {
                    data.extend_from_slice(b"\xEF\xBB\xBF");
                    data.extend_from_slice(text.as_bytes());
                }
                _ => data.extend_from_slice(text.as_bytes()),
            }
            label = Some("none".into());
            recipe = "raw bytes with encoding none".into();
        }
    }
    let mut cfg = gen_cfg(&mut rng);
    cfg.term = Term::Lf;
    cfg.stop_nm = false;
    cfg.encoding = label;
    if huge {
        cfg.multi_line = rng.chance(1, 2);
        cfg.a = cfg.a.min(1);
        cfg.b = cfg.b.min(1);
        cfg.passthru = false;
        cfg.invert = false;
    }
    let raw16 = cfg.encoding.as_deref() == Some("none") && data.starts_with(b"\xFF\xFE");
    let pattern = if cfg.multi_line && rng.chance(1, 2) && !raw16 { ML_PATTERNS[rng.below(ML_PATTERNS.len())] } else { PATTERNS[rng.below(PATTERNS.len())] }.to_string();
    EncCase { case: Case { data, pattern, cfg }, recipe }
}

/// The UTF-8 equivalent of the input, computed in one shot with encoding_rs.
pub fn reference_bytes(data: &[u8], label: Option<&str>) -> Vec<u8> {
    if label == Some("none") {
        return data.to_vec();
    }
    let lab = label.map(|l| Encoding::for_label(l.as_bytes()).expect("label"));
    if let Some((enc, len)) = Encoding::for_bom(data) {
        if [UTF_8, UTF_16LE, UTF_16BE].contains(&enc) {
            if data.len() < 3 {
                // too short for the sniffer to name an encoding; the mark is still dropped
                return data[len.min(data.len())..].to_vec();
            }
            // the mark overrides any label
            if enc == UTF_8 && lab.is_none() {
                return data[len..].to_vec();
            }
            return enc.decode_without_bom_handling(&data[len..]).0.into_owned().into_bytes();
        }
    }
    match lab {
        Some(enc) => enc.decode_without_bom_handling(data).0.into_owned().into_bytes(),
        None => data.to_vec(),
    }
}

fn judge(reference: &RunOut, out: &RunOut, strat: &Strategy, ec: &EncCase) -> Option<(String, String)> {
    let kind = strat.kind();
    if let Some(p) = &out.panicked {
        return Some((format!("panic:{kind}"), format!("panic: {p}")));
    }
    let utf8bom_with_label = ec.case.data.starts_with(b"\xEF\xBB\xBF") && ec.case.data.len() >= 3 && !matches!(ec.case.cfg.encoding.as_deref(), None | Some("none") | Some("utf-8"));
    let suffix = if utf8bom_with_label { "+utf8-bom-with-conflicting-label" } else { "" };
    if let Err((_, m)) = &out.res {
        return Some((format!("error-returned:{kind}{suffix}"), format!("search of encoded input failed: {m}")));
    }
    if out.evs != reference.evs {
        // Two defects of the transcoding layer (encoding_rs_io as configured
        // by the searcher) are recognised by re-running the reference on the
        // bytes they would produce:
        // (1) a text whose first character is U+FEFF, after a mark: the mark is
        //     stripped by the BOM peeker and the decoder (created "with BOM
        //     removal") then strips the U+FEFF as well;
        // (2) output dropped at end of input: when the decoder still holds
        //     pending output once the source is exhausted (an incomplete
        //     trailing sequence, or a lone surrogate before the last
        //     character) and the caller's buffer has fewer than 4 bytes of
        //     room, the transcoder hands out what fits and then reports EOF
        //     without draining the remaining 1-2 bytes of the last character.
        let u = reference_bytes(&ec.case.data, ec.case.cfg.encoding.as_deref());
        if ec.case.cfg.encoding.as_deref() != Some("none") {
            let feff = u.starts_with(b"\xEF\xBB\xBF");
            for strip in [false, true] {
                if strip && !feff {
                    continue;
                }
                for cut in [0usize, 1, 2] {
                    if !strip && cut == 0 {
                        continue;
                    }
                    let from = if strip { 3 } else { 0 };
                    if u.len() < from + cut {
                        continue;
                    }
                    let mut c = ec.case.clone();
                    c.data = u[from..u.len() - cut].to_vec();
                    c.cfg.encoding = Some("none".into());
                    let alt = run(&c, &Knobs::default(), &Strategy::Slice, None, None);
                    if alt.evs == out.evs {
                        let class = match (strip, cut > 0) {
                            (true, false) => "content-starting-with-U+FEFF-loses-it-after-mark",
                            (false, true) => "transcoder-drops-last-bytes-at-eof-with-small-buffer",
                            _ => "content-starting-with-U+FEFF-loses-it-after-mark+transcoder-drops-last-bytes-at-eof",
                        };
                        // The removal of a leading U+FEFF is a known finding only where it is known to
                        // happen: the class names the mark, whether a label was given, and the strategy.
                        let class = if strip {
                            let mark = if ec.case.data.starts_with(b"\xEF\xBB\xBF") { "utf8-mark" } else if ec.case.data.starts_with(b"\xFF\xFE") || ec.case.data.starts_with(b"\xFE\xFF") { "utf16-mark" } else { "no-mark" };
                            format!("{class}:{mark}{}:{kind}", if ec.case.cfg.encoding.is_some() { "+label" } else { "" })
                        } else {
                            class.to_string()
                        };
                        return Some((
                            class,
                            format!("{}: results equal those of the UTF-8 equivalent{}{}", strat.name(),
                                if strip { " without its leading U+FEFF (removed together with the byte-order mark)" } else { "" },
                                if cut > 0 { format!(" without its final {cut} byte(s) (pending decoder output at end of input, fewer than 4 bytes of room in the caller's buffer)") } else { String::new() }),
                        ));
                    }
                }
            }
        }
        let n = reference.evs.iter().zip(out.evs.iter()).take_while(|(a, b)| a == b).count();
        return Some((
            format!("differs-from-utf8-equivalent:{kind}{suffix}"),
            format!("{} on the encoded bytes differs from the search of the UTF-8 equivalent at event {n}: expected {} got {}", strat.name(), reference.evs.get(n).map(|e| e.brief()).unwrap_or("<end>".into()), out.evs.get(n).map(|e| e.brief()).unwrap_or("<end>".into())),
        ));
    }
    None
}

fn reference_run(ec: &EncCase) -> RunOut {
    let u = reference_bytes(&ec.case.data, ec.case.cfg.encoding.as_deref());
    let mut c = ec.case.clone();
    c.data = u;
    c.cfg.encoding = Some("none".into());
    run(&c, &Knobs::default(), &Strategy::Slice, None, None)
}

pub fn run_case(sub: u64, histories: usize, scratch: &Path, acc: &mut Acc) {
    let ec = gen_case(sub);
    if build_matcher(&ec.case).is_err() {
        acc.probes.inc("matcher-rejected-pattern");
        return;
    }
    let mut rng = Rng::new(sub ^ 0xC17);
    let reference = reference_run(&ec);
    acc.evals += 1;
    acc.cur_digest = digest_run(sub, &reference);
    acc.styles.inc(ec.recipe.split(" label=").next().unwrap_or("").split(" lone").next().unwrap_or("").trim());
    let delivered = reference.evs.iter().any(|e| e.line().is_some());
    let mut strategies: Vec<(Strategy, Knobs)> = vec![(Strategy::Slice, Knobs::default())];
    for i in 0..histories {
        let mut h = crate::c02::gen_history(&mut rng);
        if i == 0 {
            h.style = Style::Fixed([1, 3, 5, 7][rng.below(4)]); // always one run that splits code units
        }
        let mut k = gen_knobs(&mut rng);
        if i > 0 && rng.chance(1, 3) {
            // a searcher used before (the earlier search complete, stopped, or failed at some read)
            k.warm = rng.next() | 1;
        }
        strategies.push((Strategy::Reader(h), k));
    }
    if rng.chance(1, 10) || ec.case.data.len() > 65536 {
        strategies.push((Strategy::Path { mmap: true }, Knobs { cloned: rng.chance(1, 2), ..Knobs::default() }));
        strategies.push((Strategy::Path { mmap: false }, Knobs { cloned: rng.chance(1, 2), ..Knobs::default() }));
        strategies.push((Strategy::Slice, Knobs { cloned: true, ..Knobs::default() }));
        strategies.push((Strategy::File { mmap: rng.chance(1, 2) }, Knobs::default()));
    }
    if rng.chance(1, 5) {
        // a heap limit with a little more room than the UTF-8 equivalent needs: what has to
        // fit is the transcoded text, however large the encoded file is
        let need = reference_bytes(&ec.case.data, ec.case.cfg.encoding.as_deref()).len();
        let lim = Knobs { heap_limit: Some(need + 64 + rng.below(64)), ..Knobs::default() };
        strategies.push((Strategy::Path { mmap: false }, lim));
        strategies.push((Strategy::File { mmap: false }, lim));
        strategies.push((Strategy::Reader(crate::c02::gen_history(&mut rng)), lim));
        acc.faults.inc("heap-limit-just-above-the-transcoded-size");
    }
    let mut nontrivial = false;
    for (strat, knobs) in &strategies {
        let out = run(&ec.case, knobs, strat, None, Some(scratch));
        acc.evals += 1;
        acc.cur_digest = digest_run(acc.cur_digest, &out);
        acc.faults.add("read-fragmentation(reads issued)", out.reads() as u64);
        acc.faults.add("EINTR", out.eintr_fired as u64);
        if let Strategy::Reader(h) = strat {
            if out.reads() > 2 && delivered {
                nontrivial = true;
            }
            if matches!(h.style, Style::One | Style::Fixed(1) | Style::Fixed(3) | Style::Fixed(5) | Style::Fixed(7)) && ec.recipe.starts_with("utf-16") {
                acc.probes.inc("read-split-a-utf16-code-unit");
                if ec.case.data.windows(2).any(|w| w == [0x3D, 0xD8] || w == [0xD8, 0x3D]) {
                    acc.probes.inc("read-split-a-surrogate-pair");
                }
            }
            if out.log.first().map_or(false, |(_, o)| matches!(o, ReadOutcome::Ok(1) | ReadOutcome::Ok(2))) && ec.recipe.contains("with BOM") {
                acc.probes.inc("read-split-the-BOM");
            }
            if out.log.first().map_or(false, |(_, o)| *o == ReadOutcome::Interrupted) {
                acc.probes.inc("EINTR-during-BOM-sniffing");
            }
        }
        if ec.case.data.len() > 8192 {
            acc.probes.inc("input-crosses-8KiB-transcoding-buffer");
        }
        if let Some((class, summary)) = judge(&reference, &out, strat, &ec) {
            let n_same = acc.violations.iter().filter(|v| v.class == class).count();
            if n_same < 25 {
                let (c2, st2, k2) = if n_same < 2 { minimise(&ec, strat, knobs, &class, scratch) } else { (ec.clone(), strat.clone(), *knobs) };
                let r2 = reference_run(&c2);
                let o2 = run(&c2.case, &k2, &st2, None, Some(scratch));
                acc.violations.push(Violation {
                    property: "C17".into(),
                    class,
                    summary,
                    subseed: sub,
                    replay: json!({"engine": "iosim", "kind": "c17", "case": c2.case.to_json(), "recipe": c2.recipe, "knobs": knobs_json(&k2), "strategy": st2.to_json(),
                        "utf8_equivalent": show(&reference_bytes(&c2.case.data, c2.case.cfg.encoding.as_deref())),
                        "expected": evs_json(&r2.evs), "observed": evs_json(&o2.evs), "observed_result": format!("{:?}", o2.res), "read_log": readlog_json(&o2.log)}),
                });
            }
        }
    }
    if nontrivial {
        acc.distinct.insert(fnv(&ec.case.data) ^ fnv(ec.case.pattern.as_bytes()).rotate_left(5) ^ ec.case.cfg.class());
    }
    if acc.samples.len() < 2 && nontrivial && ec.case.data.len() < 400 {
        acc.samples.push(json!({"subseed": sub, "recipe": ec.recipe, "pattern": ec.case.pattern, "cfg": ec.case.cfg.to_json(), "encoded_bytes": show(&ec.case.data),
            "utf8_equivalent": show(&reference_bytes(&ec.case.data, ec.case.cfg.encoding.as_deref())), "events": brief(&reference.evs)}));
    }
}

fn minimise(ec: &EncCase, strat: &Strategy, knobs: &Knobs, class: &str, scratch: &Path) -> (EncCase, Strategy, Knobs) {
    let fails = |e: &EncCase, s: &Strategy, k: &Knobs| -> bool {
        let r = reference_run(e);
        let o = run(&e.case, k, s, None, Some(scratch));
        judge(&r, &o, s, e).map_or(false, |(c, _)| c == class)
    };
    let mut e = ec.clone();
    let mut s = strat.clone();
    let mut k = *knobs;
    if let Strategy::Reader(h) = &s {
        for cand in [Style::Full, Style::One] {
            let mut h2 = h.clone();
            h2.style = cand;
            h2.eintr_per_256 = 0;
            let s2 = Strategy::Reader(h2);
            if fails(&e, &s2, &k) {
                s = s2;
                break;
            }
        }
    }
    if k.capacity.is_some() && fails(&e, &s, &Knobs { capacity: None, ..k }) {
        k.capacity = None;
    }
    // cut the encoded input from the end in halves, then in small steps (keeping an even length after the mark)
    let mut budget = 80;
    let mut step = e.case.data.len() / 2;
    while step >= 2 && budget > 0 {
        budget -= 1;
        if e.case.data.len() > step + 4 {
            let mut e2 = e.clone();
            let n = e2.case.data.len() - step;
            e2.case.data.truncate(n - (n % 2) + (e.case.data.len() % 2));
            if fails(&e2, &s, &k) {
                e = e2;
                continue;
            }
        }
        step /= 2;
    }
    (e, s, k)
}

pub fn replay(v: &Value, scratch: &Path) -> Option<(String, String)> {
    let ec = EncCase { case: Case::from_json(&v["case"]), recipe: v["recipe"].as_str().unwrap_or("").into() };
    let knobs = knobs_from_json(&v["knobs"]);
    let strat = Strategy::from_json(&v["strategy"]);
    let r = reference_run(&ec);
    let o = run(&ec.case, &knobs, &strat, None, Some(scratch));
    println!("replay: expected {}", brief(&r.evs));
    println!("replay: observed {} result {:?}", brief(&o.evs), o.res);
    judge(&r, &o, &strat, &ec)
}
