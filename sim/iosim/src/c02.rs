//! C02 (results do not depend on how the bytes reach the searcher) and C03
//! (results follow the grep model). Both are decided on the same simulated
//! runs with independent oracles.

use crate::case::*;
use crate::model::{model, ModelOut};
use crate::run::*;
use crate::sim::*;
use serde_json::{json, Value};
use simcore::*;
use std::path::Path;

#[derive(Clone, Debug)]
pub struct Verdict {
    pub prop: &'static str,
    pub class: String,
    pub summary: String,
}

fn strip_finish(evs: &[Ev]) -> &[Ev] {
    match evs.last() {
        Some(e) if e.is_finish() => &evs[..evs.len() - 1],
        _ => evs,
    }
}

fn first_diff(a: &[Ev], b: &[Ev]) -> String {
    let n = a.iter().zip(b.iter()).take_while(|(x, y)| x == y).count();
    format!(
        "first difference at event {n}: expected {} got {}",
        a.get(n).map(|e| e.brief()).unwrap_or("<end>".into()),
        b.get(n).map(|e| e.brief()).unwrap_or("<end>".into())
    )
}

fn cfg_suffix(cfg: &Cfg) -> &'static str {
    if cfg.stop_nm && cfg.invert {
        "+stop-on-nonmatch+invert"
    } else {
        ""
    }
}

/// Splits a match event that covers several lines into one event per line.
pub fn split_blocks(evs: &[Ev], term: u8) -> Vec<Ev> {
    let mut out = vec![];
    for e in evs {
        match e {
            Ev::Match { ln, off, bytes } if bytes[..bytes.len().saturating_sub(1)].contains(&term) => {
                let mut s = 0;
                let mut k = 0u64;
                for (i, &b) in bytes.iter().enumerate() {
                    if b == term || i + 1 == bytes.len() {
                        out.push(Ev::Match { ln: ln.map(|n| n + k), off: off + s as u64, bytes: bytes[s..=i].to_vec() });
                        s = i + 1;
                        k += 1;
                    }
                }
            }
            _ => out.push(e.clone()),
        }
    }
    out
}

/// Judges one run of `strat` against the slice reference (C02) and the model (C03).
pub fn judge(case: &Case, knobs: &Knobs, strat: &Strategy, reference: &RunOut, m: &ModelOut, out: &RunOut) -> Vec<Verdict> {
    let mut v = vec![];
    let kind_s = if knobs.toggle_ml { format!("multiline-toggle:{}", strat.kind()) } else { strat.kind().to_string() };
    let kind_s = if knobs.warm != 0 { format!("reused-searcher:{kind_s}") } else { kind_s };
    let kind = kind_s.as_str();
    // With multi-line mode requested the searcher may deliver adjacent
    // matching lines as one block; results are compared line by line.
    let (normalised, normalised_ref);
    let (out, reference) = if knobs.toggle_ml || case.cfg.multi_line {
        normalised = RunOut { evs: split_blocks(&out.evs, case.cfg.term.byte()), ..out.clone() };
        normalised_ref = RunOut { evs: split_blocks(&reference.evs, case.cfg.term.byte()), ..reference.clone() };
        (&normalised, &normalised_ref)
    } else {
        (out, reference)
    };
    if let Some(p) = &out.panicked {
        for prop in ["C02", "C03"] {
            v.push(Verdict { prop, class: format!("panic:{kind}"), summary: format!("the search panicked: {p}") });
        }
        return v;
    }
    if let Err((k, msg)) = &out.res {
        if *k == std::io::ErrorKind::Interrupted && out.eintr_fired > 0 {
            v.push(Verdict { prop: "C02", class: "interrupted-read-surfaced".into(), summary: format!("a read answered Interrupted (a retry request) made the search fail: {msg}") });
        } else {
            v.push(Verdict { prop: "C02", class: format!("error-returned:{kind}"), summary: format!("search returned an error on a fault-free input: {msg}") });
        }
        return v;
    }
    // C02: identical to the in-memory slice search
    if out.evs != reference.evs {
        if strip_finish(&out.evs) == strip_finish(&reference.evs) {
            let class = if case.cfg.stop_nm && m.stopped_early { format!("bytecount-differs-after-stop-on-nonmatch:{kind}") } else { format!("bytecount-differs:{kind}") };
            v.push(Verdict { prop: "C02", class, summary: format!("final byte count differs: slice {} vs {} {}", reference.evs.last().map(|e| e.brief()).unwrap_or_default(), strat.name(), out.evs.last().map(|e| e.brief()).unwrap_or_default()) });
        } else {
            v.push(Verdict { prop: "C02", class: format!("events-differ:{kind}{}", cfg_suffix(&case.cfg)), summary: format!("{} differs from slice: {}", strat.name(), first_diff(&reference.evs, &out.evs)) });
        }
    }
    // C03: identical to the reference model (byte count only for searches that ran to completion)
    let same_as_model = if m.stopped_early { strip_finish(&out.evs) == strip_finish(&m.evs) && out.evs.last().map_or(false, |e| e.is_finish()) } else { out.evs == m.evs };
    if !same_as_model {
        v.push(Verdict { prop: "C03", class: format!("model-differs:{kind}{}", cfg_suffix(&case.cfg)), summary: format!("{} differs from the grep model: {}", strat.name(), first_diff(&m.evs, &out.evs)) });
    }
    if let Some(inv) = &out.invariant {
        v.push(Verdict { prop: "C03", class: format!("sink-invariant:{kind}"), summary: inv.clone() });
    }
    v
}

pub fn replay_json(case: &Case, knobs: &Knobs, strat: &Strategy, leg: &str, reference: &[Ev], observed: &RunOut, m: &ModelOut) -> Value {
    json!({
        "engine": "iosim", "kind": "c02c03", "leg": leg,
        "case": case.to_json(), "knobs": knobs_json(knobs), "strategy": strat.to_json(),
        "expected_slice": evs_json(reference), "expected_model": evs_json(&m.evs), "observed": evs_json(&observed.evs),
        "observed_result": format!("{:?}", observed.res), "read_log": readlog_json(&observed.log),
    })
}

pub struct Acc {
    pub evals: u64,
    pub distinct: std::collections::BTreeSet<u64>,
    pub faults: Counters,
    pub probes: Counters,
    pub styles: Counters,
    pub violations: Vec<Violation>,
    pub samples: Vec<Value>,
    /// (run index, digest over every event list and read log of that case)
    pub digests: Vec<(u64, u64)>,
    pub cur_digest: u64,
}

pub fn digest_run(d: u64, out: &RunOut) -> u64 {
    let mut d = fnv_step(d, fnv(format!("{:?}", out.res).as_bytes()));
    for e in &out.evs {
        d = fnv_step(d, fnv(e.brief().as_bytes()));
        if let Some((_, b)) = e.line() {
            d = fnv_step(d, fnv(b));
        }
    }
    for (b, o) in &out.log {
        d = fnv_step(d, *b as u64 ^ fnv(format!("{o:?}").as_bytes()));
    }
    d
}

impl Acc {
    pub fn new() -> Acc {
        Acc { evals: 0, distinct: Default::default(), faults: Counters::default(), probes: Counters::default(), styles: Counters::default(), violations: vec![], samples: vec![], digests: vec![], cur_digest: 0 }
    }
    pub fn merge(&mut self, o: Acc) {
        self.evals += o.evals;
        self.distinct.extend(o.distinct);
        self.faults.merge(&o.faults);
        self.probes.merge(&o.probes);
        self.styles.merge(&o.styles);
        self.violations.extend(o.violations);
        self.digests.extend(o.digests);
        if self.samples.len() < 4 {
            self.samples.extend(o.samples);
        }
    }
}

pub fn gen_history(rng: &mut Rng) -> History {
    let mut h = History::plain(Style::gen(rng), rng.next());
    if rng.chance(1, 4) {
        h.eintr_per_256 = [8, 32, 64, 128][rng.below(4)];
    }
    h
}

pub fn gen_knobs(rng: &mut Rng) -> Knobs {
    Knobs { capacity: if rng.chance(1, 5) { None } else { Some(CAPACITIES[rng.below(CAPACITIES.len())]) }, heap_limit: None, mmap: false, toggle_ml: false, warm: 0, cloned: rng.chance(1, 4), boxed_sink: rng.chance(1, 4) }
}

/// Runs every leg for one generated case.
pub fn run_case(prop: &str, sub: u64, histories: usize, scratch: &Path, acc: &mut Acc) {
    let mut rng = Rng::new(sub);
    let mut case = gen_case_line(rng.next(), true);
    if case.cfg.stop_nm {
        // the command line documents that --stop-on-nonmatch overrides -U
        case.cfg.multi_line = false;
    }
    if rng.chance(1, 16) {
        // byte-order-mark sniffing switched off (-E none) and an input that starts with the
        // bytes of a mark: they are ordinary content on every route
        case.cfg.encoding = Some("none".into());
        let mark: &[u8] = [&b"\xEF\xBB\xBF"[..], &b"\xFF\xFE"[..], &b"\xFE\xFF"[..]][rng.below(3)];
        case.data = [mark, &case.data[..]].concat();
        acc.faults.inc("mark-bytes-with-sniffing-off");
    } else if prop == "C02" && rng.chance(1, 16) && case.data.is_ascii() && case.cfg.term == Term::Lf {
        // the same text as UTF-16 (either byte order) or UTF-8 behind a byte-order mark, sniffing
        // on: every route has to notice the mark
        let (mark, wide, be): (&[u8], bool, bool) = [(&b"\xFF\xFE"[..], true, false), (&b"\xFE\xFF"[..], true, true), (&b"\xEF\xBB\xBF"[..], false, false)][rng.below(3)];
        let mut enc = mark.to_vec();
        for &b in &case.data {
            if wide {
                enc.extend_from_slice(&if be { (b as u16).to_be_bytes() } else { (b as u16).to_le_bytes() });
            } else {
                enc.push(b);
            }
        }
        case.data = enc;
        acc.faults.inc("input-behind-a-byte-order-mark");
    } else if prop == "C02" && rng.chance(1, 16) && !case.data.is_empty() {
        // an explicit UTF-8 label and a byte that is not UTF-8: every route replaces it alike
        case.cfg.encoding = Some("utf-8".into());
        let at = rng.below(case.data.len());
        if case.data[at] != case.cfg.term.byte() && case.data[at] != b'\r' {
            case.data[at] = [0xFFu8, 0xC0, 0x80][rng.below(3)];
        }
        acc.faults.inc("invalid-byte-under-explicit-utf8-label");
    }
    if build_matcher(&case).is_err() {
        acc.probes.inc("matcher-rejected-pattern");
        return;
    }
    let k0 = Knobs::default();
    let reference = run(&case, &k0, &Strategy::Slice, None, None);
    let m = model(&case);
    acc.evals += 1;
    acc.cur_digest = digest_run(sub, &reference);
    let delivered = reference.evs.iter().any(|e| e.line().is_some());
    let case_hash = fnv(&case.data) ^ fnv(case.pattern.as_bytes()).rotate_left(7) ^ case.cfg.class().wrapping_mul(0x9E3779B97F4A7C15);
    let mut report = |acc: &mut Acc, case: &Case, knobs: &Knobs, strat: &Strategy, leg: &str, out: &RunOut, verdicts: Vec<Verdict>| {
        for vd in verdicts {
            if vd.prop != prop {
                continue;
            }
            // keep memory bounded: full replay bodies only for the first few
            let n_same = acc.violations.iter().filter(|x| x.class == vd.class).count();
            if n_same >= 40 {
                acc.faults.inc(&format!("(violations beyond the first 40 of class {})", vd.class));
                continue;
            }
            let (c, kn, st) = if n_same < 2 { minimise(prop, &vd.class, case, knobs, strat, scratch) } else { (case.clone(), *knobs, strat.clone()) };
            let r2 = run(&c, &Knobs::default(), &Strategy::Slice, None, None);
            let m2 = model(&c);
            let o2 = run(&c, &kn, &st, None, Some(scratch));
            let _ = out;
            acc.violations.push(Violation { property: prop.into(), class: vd.class.clone(), summary: vd.summary.clone(), subseed: sub, replay: replay_json(&c, &kn, &st, leg, &r2.evs, &o2, &m2) });
        }
    };
    // the slice run itself against the model
    let vs = judge(&case, &k0, &Strategy::Slice, &reference, &m, &reference);
    report(acc, &case, &k0, &Strategy::Slice, "slice", &reference, vs);
    let mut nontrivial = false;
    for _ in 0..histories {
        let h = gen_history(&mut rng);
        let knobs = gen_knobs(&mut rng);
        let strat = Strategy::Reader(h.clone());
        let out = run(&case, &knobs, &strat, None, None);
        acc.evals += 1;
        acc.cur_digest = digest_run(acc.cur_digest, &out);
        acc.styles.inc(&h.style.name());
        acc.faults.add("read-fragmentation(reads issued)", out.reads() as u64);
        acc.faults.add("EINTR", out.eintr_fired as u64);
        if knobs.capacity.is_some() {
            acc.faults.inc("small-buffer-capacity");
        }
        let grew = out.grew(&knobs);
        if grew {
            acc.probes.inc("buffer-grew");
        }
        if out.reads() > 2 && delivered {
            nontrivial = true;
            acc.probes.inc("buffer-rolled-with-results");
            if case.cfg.a > 0 || case.cfg.b > 0 {
                acc.probes.inc("buffer-rolled-with-context-configured");
            }
        }
        if case.cfg.term == Term::Crlf && h.style == Style::AntiAligned {
            acc.probes.inc("read-ended-between-CR-and-LF(style)");
        }
        if acc.samples.len() < 2 && delivered && out.reads() > 3 {
            acc.samples.push(json!({"subseed": sub, "pattern": case.pattern, "cfg": case.cfg.to_json(), "input": show(&case.data[..case.data.len().min(160)]), "input_len": case.data.len(),
                "history": h.to_json(), "capacity": knobs.capacity, "reads": out.reads(), "read_log_head": readlog_json(&out.log[..out.log.len().min(24)]), "events": brief(&out.evs)}));
        }
        let vs = judge(&case, &knobs, &strat, &reference, &m, &out);
        report(acc, &case, &knobs, &strat, "reader", &out, vs);
    }
    if nontrivial {
        acc.distinct.insert(case_hash);
    }
    // multi-line requested or not must not matter for these patterns
    if !case.cfg.stop_nm {
        let mut c2 = case.clone();
        c2.cfg.multi_line = !case.cfg.multi_line;
        if build_matcher(&c2).is_ok() {
            let kt = Knobs { toggle_ml: true, ..k0 };
            let o = run(&case, &kt, &Strategy::Slice, None, None);
            acc.evals += 1;
            acc.faults.inc("multi-line-request-toggled");
            let vs = judge(&case, &kt, &Strategy::Slice, &reference, &m, &o);
            report(acc, &case, &kt, &Strategy::Slice, "multiline-toggle", &o, vs);
            let h = gen_history(&mut rng);
            let knobs = Knobs { toggle_ml: true, ..gen_knobs(&mut rng) };
            let st = Strategy::Reader(h);
            let o = run(&case, &knobs, &st, None, None);
            acc.evals += 1;
            let vs = judge(&case, &knobs, &st, &reference, &m, &o);
            report(acc, &case, &knobs, &st, "multiline-toggle", &o, vs);
        }
    }
    // a consumer that declines at the very start, or stops at some event: every strategy delivers
    // the same (shortened) stream, completion signal included
    if prop == "C02" && rng.chance(1, 4) {
        let n_ev = reference.evs.len();
        for k in [0usize, if n_ev > 2 { 1 + rng.below(n_ev - 2) } else { 0 }] {
            let inj = Some((k, Answer::Stop));
            let base = run(&case, &k0, &Strategy::Slice, inj, None);
            for st in [Strategy::Reader(gen_history(&mut rng)), Strategy::Path { mmap: false }, Strategy::File { mmap: true }] {
                let knobs = if matches!(st, Strategy::Reader(_)) { gen_knobs(&mut rng) } else { k0 };
                let o = run(&case, &knobs, &st, inj, Some(scratch));
                acc.evals += 1;
                acc.faults.inc("consumer-stops-at-event-k");
                // (the byte count reported on completion after a stop is not part of the comparison)
                let strip = |e: &[Ev]| -> Vec<String> { e.iter().map(|x| if x.is_finish() { "finish".to_string() } else { x.brief() }).collect() };
                if o.res.is_ok() != base.res.is_ok() || strip(&o.evs) != strip(&base.evs) || o.finish_calls != base.finish_calls {
                    let class = format!("events-differ-after-stop:{}", st.kind());
                    if acc.violations.iter().filter(|v| v.class == class).count() < 10 {
                        acc.violations.push(Violation { property: prop.into(), class, summary: format!("consumer stops at event {k}: {} delivers [{}] with {} completion signals, the slice search [{}] with {}", st.name(), brief(&o.evs), o.finish_calls, brief(&base.evs), base.finish_calls), subseed: sub,
                            replay: json!({"engine": "iosim", "kind": "c02c03", "leg": "stop-at-k", "case": case.to_json(), "knobs": knobs_json(&knobs), "strategy": st.to_json(), "stop_at": k}) });
                    }
                }
            }
        }
    }
    // a searcher that is not fresh: one worker searches file after file with the
    // same Searcher, so what an earlier search left behind must not show
    if rng.chance(1, 3) {
        for _ in 0..2 {
            let warm = rng.next() | 1;
            let toggle_ml = !case.cfg.stop_nm && rng.chance(1, 3) && {
                let mut c2 = case.clone();
                c2.cfg.multi_line = !case.cfg.multi_line;
                build_matcher(&c2).is_ok()
            };
            let (knobs, st) = match rng.below(4) {
                0 => (Knobs { warm, toggle_ml, ..k0 }, Strategy::Slice),
                1 => (Knobs { warm, toggle_ml, ..k0 }, Strategy::Path { mmap: rng.chance(1, 2) }),
                _ => (Knobs { warm, toggle_ml, ..gen_knobs(&mut rng) }, Strategy::Reader(gen_history(&mut rng))),
            };
            let o = run(&case, &knobs, &st, None, Some(scratch));
            acc.evals += 1;
            acc.cur_digest = digest_run(acc.cur_digest, &o);
            acc.faults.inc("searcher-reused-after-another-search");
            let vs = judge(&case, &knobs, &st, &reference, &m, &o);
            report(acc, &case, &knobs, &st, "reused-searcher", &o, vs);
        }
    }
    // real file: memory map and plain reads
    if rng.chance(1, 12) {
        for (mmap, via_file) in [(true, false), (false, false), (true, true), (false, true)] {
            let st = if via_file { Strategy::File { mmap } } else { Strategy::Path { mmap } };
            let o = run(&case, &k0, &st, None, Some(scratch));
            acc.evals += 1;
            acc.faults.inc(if mmap { "strategy:mmap-file" } else { "strategy:read-file" });
            let vs = judge(&case, &k0, &st, &reference, &m, &o);
            report(acc, &case, &k0, &st, "path", &o, vs);
        }
    }
    // a file larger than the 64 KiB buffers whose transcoding (latin-1 text full of non-ASCII
    // bytes) is longer than the file itself, searched with the multi-line strategy proper
    if prop == "C02" && rng.chance(1, 300) {
        let mut d: Vec<u8> = vec![];
        let target = 66_000 + rng.below(60_000);
        while d.len() < target {
            d.extend_from_slice(b"caf\xE9 foo \xE9\xE9\xE9\xE9\xE9\xE9\xE9\xE9\n");
            d.extend_from_slice(&gen_line(&mut rng));
            d.extend_from_slice(b"\nbar \xFC\xFC\n");
        }
        d.extend_from_slice(b"the end foo\nbar\n");
        let c2 = Case {
            data: d,
            pattern: ML_PATTERNS[rng.below(ML_PATTERNS.len())].to_string(),
            cfg: Cfg { term: Term::Lf, multi_line: true, stop_nm: false, passthru: false, invert: false, a: case.cfg.a.min(1), b: case.cfg.b.min(1), encoding: Some("latin1".into()), ..case.cfg.clone() },
        };
        if build_matcher(&c2).is_ok() {
            let r2 = run(&c2, &k0, &Strategy::Slice, None, None);
            let m2 = model(&c2);
            for st in [Strategy::Path { mmap: false }, Strategy::Path { mmap: true }, Strategy::Reader(gen_history(&mut rng))] {
                let o = run(&c2, &k0, &st, None, Some(scratch));
                acc.evals += 1;
                acc.faults.inc("large-transcoded-input-under-the-multi-line-strategy");
                let vs = judge(&c2, &k0, &st, &r2, &m2, &o);
                report(acc, &c2, &k0, &st, "large-transcoded", &o, vs);
            }
        }
    }
    // a file whose size on disk says more than what reaches the searcher (UTF-16 behind its
    // mark: half of it; UTF-8 behind its mark: three bytes less), searched with the multi-line
    // strategy proper under a heap limit that the delivered text fits into
    if prop == "C02" && rng.chance(1, 60) {
        let mut text: Vec<u8> = vec![];
        for _ in 0..20 + rng.below(200) {
            let l = gen_line(&mut rng);
            if l.is_ascii() {
                text.extend_from_slice(&l);
                text.push(b'\n');
            }
        }
        text.extend_from_slice(b"foo\nbar\nx\n");
        let wide = rng.chance(2, 3);
        let data: Vec<u8> = if wide {
            let mut d = vec![0xFF, 0xFE];
            for &b in &text {
                d.extend_from_slice(&[b, 0]);
            }
            d
        } else {
            [&b"\xEF\xBB\xBF"[..], &text[..]].concat()
        };
        let c2 = Case {
            data,
            pattern: ML_PATTERNS[rng.below(ML_PATTERNS.len())].to_string(),
            cfg: Cfg { term: Term::Lf, multi_line: true, stop_nm: false, passthru: false, invert: false, a: case.cfg.a.min(1), b: case.cfg.b.min(1), encoding: None, ..case.cfg.clone() },
        };
        if build_matcher(&c2).is_ok() {
            let r2 = run(&c2, &k0, &Strategy::Slice, None, None);
            let m2 = model(&Case { data: text.clone(), ..c2.clone() });
            let lim = Knobs { heap_limit: Some(text.len() + 16 + rng.below(if wide { text.len() } else { 3 }.max(1))), ..k0 };
            for st in [Strategy::Path { mmap: false }, Strategy::File { mmap: false }, Strategy::Reader(gen_history(&mut rng))] {
                let o = run(&c2, &lim, &st, None, Some(scratch));
                acc.evals += 1;
                acc.faults.inc("heap-limit-between-delivered-size-and-file-size(multi-line)");
                let vs = judge(&c2, &lim, &st, &r2, &m2, &o);
                report(acc, &c2, &lim, &st, "marked-file-under-heap-limit", &o, vs);
            }
        }
    }
    // special files: size 0 but content (procfs); a memory map is impossible
    // there and the searcher must fall back to reading
    if rng.chance(1, 300) {
        for sp in ["/proc/version", "/proc/filesystems", "/proc/self/limits"] {
            let Ok(data) = std::fs::read(sp) else { continue };
            if data.is_empty() || data.contains(&0) {
                continue;
            }
            // for C02 half of these searches really take the multi-line strategy (a pattern that
            // can match a line terminator): the file is then read into one buffer up front
            let ml = prop == "C02" && rng.chance(1, 2);
            let pat = if ml { [r"\w+\s*\n", r"(?s)e.", r"o\n"][rng.below(3)] } else { ["o", "e", "^.", "[0-9]+"][rng.below(4)] };
            let c2 = Case { data, pattern: pat.to_string(), cfg: Cfg { term: Term::Lf, multi_line: ml, stop_nm: false, encoding: None, ..case.cfg.clone() } };
            if build_matcher(&c2).is_err() {
                continue;
            }
            let r2 = run(&c2, &k0, &Strategy::Slice, None, None);
            let m2 = model(&c2);
            for mmap in [true, false] {
                let st = Strategy::Special { path: sp.to_string(), mmap };
                let o = run(&c2, &k0, &st, None, None);
                acc.evals += 1;
                acc.faults.inc("strategy:special-file(size 0 with content)");
                let vs = judge(&c2, &k0, &st, &r2, &m2, &o);
                report(acc, &c2, &k0, &st, "special-file", &o, vs);
            }
        }
    }
    // heap limit: just sufficient must behave like unlimited; one byte less must fail cleanly
    if prop == "C02" && rng.chance(1, 10) && case.data.len() < 20_000 {
        heap_limit_leg(&case, &mut rng, &reference, sub, acc);
    }
}

fn heap_limit_leg(case: &Case, rng: &mut Rng, reference: &RunOut, sub: u64, acc: &mut Acc) {
    let h = History::plain(Style::gen(rng), rng.next());
    let cap = if rng.chance(1, 2) { Some(CAPACITIES[rng.below(8)]) } else { None };
    let st = Strategy::Reader(h);
    let ok_at = |limit: usize| -> RunOut { run(case, &Knobs { capacity: cap, heap_limit: Some(limit), mmap: false, toggle_ml: false, warm: 0, cloned: false, boxed_sink: false }, &st, None, None) };
    let (mut lo, mut hi) = (0usize, case.data.len() + 70_000);
    if ok_at(hi).res.is_err() {
        return;
    }
    while lo < hi {
        let mid = (lo + hi) / 2;
        acc.evals += 1;
        if ok_at(mid).res.is_ok() {
            hi = mid;
        } else {
            lo = mid + 1;
        }
    }
    let at = ok_at(hi);
    acc.faults.inc("heap-limit-just-sufficient");
    let mk = |class: &str, summary: String, limit: usize, o: &RunOut| Violation {
        property: "C02".into(),
        class: class.into(),
        summary,
        subseed: sub,
        replay: json!({"engine": "iosim", "kind": "c02c03", "leg": "heap-limit", "case": case.to_json(), "knobs": knobs_json(&Knobs { capacity: cap, heap_limit: Some(limit), mmap: false, toggle_ml: false, warm: 0, cloned: false, boxed_sink: false }), "strategy": st.to_json(), "observed": evs_json(&o.evs), "observed_result": format!("{:?}", o.res)}),
    };
    let m = model(case);
    let kk = Knobs { capacity: cap, heap_limit: Some(hi), mmap: false, toggle_ml: false, warm: 0, cloned: false, boxed_sink: false };
    for vd in judge(case, &kk, &st, reference, &m, &at) {
        if vd.prop == "C02" {
            acc.violations.push(mk(&format!("heap-limit-just-sufficient:{}", vd.class), format!("with heap limit {hi} (the smallest that succeeds): {}", vd.summary), hi, &at));
        }
    }
    if hi > 0 {
        let below = ok_at(hi - 1);
        acc.faults.inc("heap-limit-one-below(allocation refused)");
        let config_error_at_zero = hi - 1 == 0 && matches!(&below.res, Err((_, m)) if m.contains("no available searchers"));
        if !below.is_alloc_error() && !config_error_at_zero {
            acc.violations.push(mk("heap-limit-below-not-alloc-error", format!("heap limit {} fails with {:?}, not the allocation error", hi - 1, below.res), hi - 1, &below));
        } else {
            let n = below.evs.len();
            let reff = &reference.evs;
            if n > reff.len() || below.evs[..] != reff[..n] || below.finish_calls > 0 {
                acc.violations.push(mk("heap-limit-below-not-prefix", format!("heap limit {}: delivered events are not a prefix of the full results", hi - 1), hi - 1, &below));
            }
        }
    }
}

/// Re-evaluates a (case, knobs, strategy) triple and tells whether a verdict
/// of the given class still appears.
pub fn still_fails(prop: &str, class: &str, case: &Case, knobs: &Knobs, strat: &Strategy, scratch: &Path) -> bool {
    if build_matcher(case).is_err() {
        return false;
    }
    let reference = run(case, &Knobs::default(), &Strategy::Slice, None, None);
    let m = model(case);
    let out = run(case, knobs, strat, None, Some(scratch));
    judge(case, knobs, strat, &reference, &m, &out).iter().any(|v| v.prop == prop && v.class == class)
}

/// Shrinks a failing triple while the same violation class persists.
pub fn minimise(prop: &str, class: &str, case: &Case, knobs: &Knobs, strat: &Strategy, scratch: &Path) -> (Case, Knobs, Strategy) {
    let mut c = case.clone();
    let mut k = *knobs;
    let mut s = strat.clone();
    if matches!(s, Strategy::Special { .. }) || !still_fails(prop, class, &c, &k, &s, scratch) {
        return (c, k, s);
    }
    let mut budget = 400;
    // 1. simpler history
    if let Strategy::Reader(h) = &s {
        for cand in [Style::Full, Style::One, Style::Small(2), Style::TermAligned] {
            let mut h2 = h.clone();
            h2.style = cand;
            let s2 = Strategy::Reader(h2);
            if still_fails(prop, class, &c, &k, &s2, scratch) {
                s = s2;
                break;
            }
        }
        if let Strategy::Reader(h) = &s {
            if h.eintr_per_256 > 0 {
                let mut h2 = h.clone();
                h2.eintr_per_256 = 0;
                let s2 = Strategy::Reader(h2);
                if still_fails(prop, class, &c, &k, &s2, scratch) {
                    s = s2;
                }
            }
        }
    }
    if k.capacity.is_some() {
        let k2 = Knobs { capacity: None, ..k };
        if still_fails(prop, class, &c, &k2, &s, scratch) {
            k = k2;
        }
    }
    if k.cloned {
        let k2 = Knobs { cloned: false, ..k };
        if still_fails(prop, class, &c, &k2, &s, scratch) {
            k = k2;
        }
    }
    // 2. drop lines
    let term = c.cfg.term.byte();
    loop {
        let lines = crate::model::split_lines(&c.data, term);
        let mut changed = false;
        let mut i = lines.len();
        while i > 0 && budget > 0 {
            i -= 1;
            budget -= 1;
            let (s0, e0) = lines[i];
            let mut c2 = c.clone();
            c2.data = [&c.data[..s0], &c.data[e0..]].concat();
            if still_fails(prop, class, &c2, &k, &s, scratch) {
                c = c2;
                changed = true;
                break;
            }
        }
        if !changed || budget == 0 {
            break;
        }
    }
    // 3. simpler configuration
    let tries: Vec<Box<dyn Fn(&mut Cfg)>> = vec![
        Box::new(|c| c.a = 0),
        Box::new(|c| c.b = 0),
        Box::new(|c| c.a = c.a.min(1)),
        Box::new(|c| c.b = c.b.min(1)),
        Box::new(|c| c.passthru = false),
        Box::new(|c| c.invert = false),
        Box::new(|c| c.line_number = true),
        Box::new(|c| c.stop_nm = false),
        Box::new(|c| c.multi_line = false),
    ];
    if k.toggle_ml {
        let mut probe = c.clone();
        probe.cfg.multi_line = !probe.cfg.multi_line;
        if build_matcher(&probe).is_err() {
            return (c, k, s);
        }
    }
    for t in tries {
        let mut c2 = c.clone();
        t(&mut c2.cfg);
        if still_fails(prop, class, &c2, &k, &s, scratch) {
            c = c2;
        }
    }
    (c, k, s)
}

pub fn replay(prop: &str, v: &Value, scratch: &Path) -> Option<(String, String)> {
    let case = Case::from_json(&v["case"]);
    let knobs = knobs_from_json(&v["knobs"]);
    let strat = Strategy::from_json(&v["strategy"]);
    let class = v["class"].as_str().unwrap_or("");
    if v["leg"].as_str() == Some("stop-at-k") {
        let k = v["stop_at"].as_u64().unwrap_or(0) as usize;
        let inj = Some((k, Answer::Stop));
        let base = run(&case, &Knobs::default(), &Strategy::Slice, inj, None);
        let o = run(&case, &knobs, &strat, inj, Some(scratch));
        let strip = |e: &[Ev]| -> Vec<String> { e.iter().map(|x| if x.is_finish() { "finish".to_string() } else { x.brief() }).collect() };
        let bad = o.res.is_ok() != base.res.is_ok() || strip(&o.evs) != strip(&base.evs) || o.finish_calls != base.finish_calls;
        return if bad { Some((class.to_string(), format!("stop at event {k}: {} delivers [{}], the slice search [{}]", strat.name(), brief(&o.evs), brief(&base.evs)))) } else { None };
    }
    if v["leg"].as_str() == Some("heap-limit") {
        let reference = run(&case, &Knobs::default(), &Strategy::Slice, None, None);
        let o = run(&case, &knobs, &strat, None, None);
        println!("replay: heap_limit={:?} result={:?} events={}", knobs.heap_limit, o.res, brief(&o.evs));
        let bad = match class {
            c if c.starts_with("heap-limit-just-sufficient") => o.evs != reference.evs,
            "heap-limit-below-not-alloc-error" => !o.is_alloc_error(),
            _ => o.evs.len() > reference.evs.len() || o.evs[..] != reference.evs[..o.evs.len()] || o.finish_calls > 0,
        };
        return if bad { Some((class.to_string(), "heap-limit leg still fails".into())) } else { None };
    }
    let reference = run(&case, &Knobs::default(), &Strategy::Slice, None, None);
    let m = model(&case);
    let out = run(&case, &knobs, &strat, None, Some(scratch));
    println!("replay: strategy={} reads={} result={:?}", strat.name(), out.reads(), out.res);
    println!("  slice   : {}", brief(&reference.evs));
    println!("  model   : {}", brief(&m.evs));
    println!("  observed: {}", brief(&out.evs));
    for vd in judge(&case, &knobs, &strat, &reference, &m, &out) {
        if vd.prop == prop {
            return Some((vd.class, vd.summary));
        }
    }
    None
}
