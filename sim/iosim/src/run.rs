//! Executing one search under one simulated strategy.

use crate::case::*;
use crate::sim::*;
use serde_json::{json, Value};
use std::io;
use std::path::Path;

#[derive(Clone, Debug)]
pub enum Strategy {
    Slice,
    Reader(History),
    /// search_path on a real (tmpfs) file, with or without memory maps.
    Path { mmap: bool },
    /// search_file on an already opened real file (no path is known to the searcher).
    File { mmap: bool },
    /// search_path on an existing special file (e.g. under /proc, where files
    /// report a size of 0 but have content and cannot be mapped).
    Special { path: String, mmap: bool },
}

impl Strategy {
    pub fn name(&self) -> String {
        match self {
            Strategy::Slice => "slice".into(),
            Strategy::Reader(h) => format!("reader/{}", h.style.name()),
            Strategy::Path { mmap } => format!("path/{}", if *mmap { "mmap" } else { "read" }),
            Strategy::File { mmap } => format!("file/{}", if *mmap { "mmap" } else { "read" }),
            Strategy::Special { path, mmap } => format!("special:{path}/{}", if *mmap { "mmap" } else { "read" }),
        }
    }
    pub fn kind(&self) -> &'static str {
        match self {
            Strategy::Slice => "slice",
            Strategy::Reader(_) => "reader",
            Strategy::Path { .. } => "path",
            Strategy::File { .. } => "file",
            Strategy::Special { .. } => "special-file",
        }
    }
    pub fn to_json(&self) -> Value {
        match self {
            Strategy::Slice => json!({"type": "slice"}),
            Strategy::Reader(h) => json!({"type": "reader", "history": h.to_json()}),
            Strategy::Path { mmap } => json!({"type": "path", "mmap": mmap}),
            Strategy::File { mmap } => json!({"type": "file", "mmap": mmap}),
            Strategy::Special { path, mmap } => json!({"type": "special", "path": path, "mmap": mmap}),
        }
    }
    pub fn from_json(v: &Value) -> Strategy {
        match v["type"].as_str().unwrap_or("slice") {
            "reader" => Strategy::Reader(History::from_json(&v["history"])),
            "path" => Strategy::Path { mmap: v["mmap"].as_bool().unwrap_or(false) },
            "file" => Strategy::File { mmap: v["mmap"].as_bool().unwrap_or(false) },
            "special" => Strategy::Special { path: v["path"].as_str().unwrap_or("").into(), mmap: v["mmap"].as_bool().unwrap_or(false) },
            _ => Strategy::Slice,
        }
    }
}

pub fn knobs_json(k: &Knobs) -> Value {
    json!({"capacity": k.capacity, "heap_limit": k.heap_limit, "mmap": k.mmap, "toggle_multi_line": k.toggle_ml, "warm_up": k.warm, "cloned_searcher": k.cloned, "boxed_sink": k.boxed_sink})
}

pub fn knobs_from_json(v: &Value) -> Knobs {
    Knobs { capacity: v["capacity"].as_u64().map(|x| x as usize), heap_limit: v["heap_limit"].as_u64().map(|x| x as usize), mmap: v["mmap"].as_bool().unwrap_or(false), toggle_ml: v["toggle_multi_line"].as_bool().unwrap_or(false), warm: v["warm_up"].as_u64().unwrap_or(0), cloned: v["cloned_searcher"].as_bool().unwrap_or(false), boxed_sink: v["boxed_sink"].as_bool().unwrap_or(false) }
}

#[derive(Clone, Debug)]
pub struct RunOut {
    /// Ok, or (kind, message) of the returned error.
    pub res: Result<(), (io::ErrorKind, String)>,
    pub evs: Vec<Ev>,
    pub after_answer: usize,
    pub finish_calls: usize,
    pub binary_calls: usize,
    pub invariant: Option<String>,
    pub log: Vec<(usize, ReadOutcome)>,
    pub eintr_fired: usize,
    pub error_fired: bool,
    pub panicked: Option<String>,
}

impl RunOut {
    pub fn reads(&self) -> usize {
        self.log.len()
    }
    /// True if some read was offered more room than the initial capacity,
    /// i.e. the roll buffer had grown.
    pub fn grew(&self, knobs: &Knobs) -> bool {
        let cap = knobs.capacity.unwrap_or(65536).max(1);
        self.log.iter().any(|(b, _)| *b > cap)
    }
    pub fn is_alloc_error(&self) -> bool {
        matches!(&self.res, Err((_, m)) if m.contains("configured allocation limit"))
    }
}

pub fn run(case: &Case, knobs: &Knobs, strat: &Strategy, inject: Option<(usize, Answer)>, scratch: Option<&Path>) -> RunOut {
    let r = std::panic::catch_unwind(std::panic::AssertUnwindSafe(|| run_inner(case, knobs, strat, inject, scratch)));
    match r {
        Ok(o) => o,
        Err(p) => {
            let msg = p.downcast_ref::<String>().cloned().or_else(|| p.downcast_ref::<&str>().map(|s| s.to_string())).unwrap_or_else(|| "panic".into());
            RunOut { res: Err((io::ErrorKind::Other, "PANIC".into())), evs: vec![], after_answer: 0, finish_calls: 0, binary_calls: 0, invariant: None, log: vec![], eintr_fired: 0, error_fired: false, panicked: Some(msg) }
        }
    }
}

fn run_inner(case: &Case, knobs: &Knobs, strat: &Strategy, inject: Option<(usize, Answer)>, scratch: Option<&Path>) -> RunOut {
    let toggled;
    let case = if knobs.toggle_ml {
        toggled = Case { cfg: Cfg { multi_line: !case.cfg.multi_line, ..case.cfg.clone() }, ..case.clone() };
        &toggled
    } else {
        case
    };
    let matcher = build_matcher(case).expect("matcher");
    let mut k = *knobs;
    if let Strategy::Path { mmap } | Strategy::File { mmap } | Strategy::Special { mmap, .. } = strat {
        k.mmap = *mmap;
    }
    let mut searcher = build_searcher(&case.cfg, &k);
    if k.warm != 0 {
        warm_up(&mut searcher, &matcher, case, k.warm, scratch);
    }
    let mut sink = SimSink::new(inject);
    let (res, log, eintr, errf) = match strat {
        Strategy::Slice if k.boxed_sink => (searcher.search_slice(&matcher, &case.data, Box::new(&mut sink)), vec![], 0, false),
        Strategy::Slice => (searcher.search_slice(&matcher, &case.data, &mut sink), vec![], 0, false),
        Strategy::Reader(h) => {
            let mut rdr = SimReader::new(&case.data, h, case.cfg.term.byte());
            let r = if k.boxed_sink { searcher.search_reader(&matcher, &mut rdr, Box::new(&mut sink)) } else { searcher.search_reader(&matcher, &mut rdr, &mut sink) };
            (r, std::mem::take(&mut rdr.log), rdr.eintr_fired, rdr.error_fired)
        }
        Strategy::Path { .. } => {
            let p = scratch.expect("scratch dir").join("haystack");
            std::fs::write(&p, &case.data).expect("write haystack");
            (searcher.search_path(&matcher, &p, &mut sink), vec![], 0, false)
        }
        Strategy::File { .. } => {
            let p = scratch.expect("scratch dir").join("haystack");
            std::fs::write(&p, &case.data).expect("write haystack");
            let f = std::fs::File::open(&p).expect("open haystack");
            (searcher.search_file(&matcher, &f, &mut sink), vec![], 0, false)
        }
        Strategy::Special { path, .. } => (searcher.search_path(&matcher, path, &mut sink), vec![], 0, false),
    };
    RunOut {
        res: res.map_err(|e| (e.kind(), e.to_string())),
        evs: sink.evs,
        after_answer: sink.after_answer,
        finish_calls: sink.finish_calls,
        binary_calls: sink.binary_calls,
        invariant: sink.invariant,
        log,
        eintr_fired: eintr,
        error_fired: errf,
        panicked: None,
    }
}

/// A previous search with the same Searcher: other data of the same shape,
/// as a slice, through a reader (which may fail midway) or a file, run to the
/// end or stopped by the sink at some event. Its results are discarded; what
/// matters is the state it leaves behind in the searcher's buffers.
fn warm_up(searcher: &mut grep_searcher::Searcher, matcher: &grep_regex::RegexMatcher, case: &Case, warm: u64, scratch: Option<&Path>) {
    let mut rng = simcore::Rng::new(warm);
    let mut data = gen_text(&mut rng, case.cfg.term, 30);
    match rng.below(4) {
        // make sure the previous haystack holds something that matches now
        0 => data.extend_from_slice(&case.data[..case.data.len().min(4096)]),
        // the same kind of bytes as the haystack to come (its marks, its NULs), cut short
        1 => data = case.data[..case.data.len() - case.data.len().min(rng.below(8))].to_vec(),
        _ => {}
    }
    let inject = match rng.below(3) {
        0 => Some((rng.below(6), Answer::Stop)),
        _ => None,
    };
    let mut sink = SimSink::new(inject);
    match rng.below(4) {
        0 => {
            let _ = searcher.search_slice(matcher, &data, &mut sink);
        }
        3 if scratch.is_some() => {
            let p = scratch.unwrap().join("warmup");
            std::fs::write(&p, &data).expect("write warm-up haystack");
            let _ = searcher.search_path(matcher, &p, &mut sink);
        }
        _ => {
            let mut h = History::plain(Style::gen(&mut rng), rng.next());
            match rng.below(6) {
                0 | 1 => h.fault_at = Some((rng.below(4), ReadFault::Error)),
                2 => h.fault_at = Some((rng.below(40), ReadFault::Error)),
                3 => {
                    // everything is delivered by the first read, the read that would report the
                    // end of the input fails (a child that exits non-zero after its last byte)
                    h.style = Style::Full;
                    h.fault_at = Some((1, ReadFault::Error));
                }
                _ => {}
            }
            let mut rdr = SimReader::new(&data, &h, case.cfg.term.byte());
            let _ = searcher.search_reader(matcher, &mut rdr, &mut sink);
        }
    }
}
