//! Search cases: input bytes, pattern, searcher configuration; generation
//! from a sub-seed; construction of the real matcher and searcher the way
//! ripgrep's own front end builds them.

use grep_matcher::LineTerminator;
use grep_regex::{RegexMatcher, RegexMatcherBuilder};
use grep_searcher::{BinaryDetection, Encoding, MmapChoice, Searcher, SearcherBuilder};
use serde_json::{json, Value};
use simcore::{hex, show, unhex, Rng};

#[derive(Clone, Copy, Debug, PartialEq, Eq)]
pub enum Term {
    Lf,
    Crlf,
    Nul,
}

impl Term {
    pub fn byte(&self) -> u8 {
        match self {
            Term::Nul => 0,
            _ => b'\n',
        }
    }
    pub fn name(&self) -> &'static str {
        match self {
            Term::Lf => "lf",
            Term::Crlf => "crlf",
            Term::Nul => "nul",
        }
    }
    pub fn parse(s: &str) -> Term {
        match s {
            "crlf" => Term::Crlf,
            "nul" => Term::Nul,
            _ => Term::Lf,
        }
    }
}

#[derive(Clone, Copy, Debug, PartialEq, Eq)]
pub enum Bin {
    None,
    Quit,
    Convert,
}

#[derive(Clone, Debug)]
pub struct Cfg {
    pub a: usize,
    pub b: usize,
    pub passthru: bool,
    pub invert: bool,
    pub line_number: bool,
    pub stop_nm: bool,
    /// Multi-line mode requested.
    pub multi_line: bool,
    pub term: Term,
    pub bin: Bin,
    /// Encoding label, `Some("none")` = bom_sniffing off, None = auto.
    pub encoding: Option<String>,
}

impl Cfg {
    pub fn to_json(&self) -> Value {
        json!({ "A": self.a, "B": self.b, "passthru": self.passthru, "invert": self.invert, "line_number": self.line_number,
                "stop_on_nonmatch": self.stop_nm, "multi_line": self.multi_line, "term": self.term.name(),
                "binary": match self.bin { Bin::None => "none", Bin::Quit => "quit", Bin::Convert => "convert" }, "encoding": self.encoding })
    }
    pub fn from_json(v: &Value) -> Cfg {
        Cfg {
            a: v["A"].as_u64().unwrap_or(0) as usize,
            b: v["B"].as_u64().unwrap_or(0) as usize,
            passthru: v["passthru"].as_bool().unwrap_or(false),
            invert: v["invert"].as_bool().unwrap_or(false),
            line_number: v["line_number"].as_bool().unwrap_or(true),
            stop_nm: v["stop_on_nonmatch"].as_bool().unwrap_or(false),
            multi_line: v["multi_line"].as_bool().unwrap_or(false),
            term: Term::parse(v["term"].as_str().unwrap_or("lf")),
            bin: match v["binary"].as_str().unwrap_or("none") {
                "quit" => Bin::Quit,
                "convert" => Bin::Convert,
                _ => Bin::None,
            },
            encoding: v["encoding"].as_str().map(String::from),
        }
    }
    /// A coarse class of the configuration, for the distinct-case measure.
    pub fn class(&self) -> u64 {
        (self.a.min(3) as u64)
            | (self.b.min(3) as u64) << 2
            | (self.passthru as u64) << 4
            | (self.invert as u64) << 5
            | (self.line_number as u64) << 6
            | (self.stop_nm as u64) << 7
            | (self.multi_line as u64) << 8
            | (self.term as u64) << 9
            | (self.bin as u64) << 11
    }
}

#[derive(Clone, Debug)]
pub struct Case {
    pub data: Vec<u8>,
    pub pattern: String,
    pub cfg: Cfg,
}

impl Case {
    pub fn to_json(&self) -> Value {
        json!({ "data_hex": hex(&self.data), "data_shown": show(&self.data), "pattern": self.pattern, "cfg": self.cfg.to_json() })
    }
    pub fn from_json(v: &Value) -> Case {
        Case { data: unhex(v["data_hex"].as_str().unwrap_or("")), pattern: v["pattern"].as_str().unwrap_or("foo").into(), cfg: Cfg::from_json(&v["cfg"]) }
    }
}

/// Patterns whose line-mode meaning is uncontroversial and which can never
/// match a line terminator.
pub const LINE_PATTERNS: [&str; 12] = ["foo", "fo+", "^foo", "foo$", "bar|x", "[a-f]oo", "^$", "o", "^x", r"\bfoo\b", "(?i)FOO", "zz+"];

/// Patterns that may match across lines (used where the multi-line strategy
/// itself must run: C16, C17).
pub const ML_PATTERNS: [&str; 6] = [r"foo\nbar", r"o\s+f", r"(?s)foo.*?bar", r"x\n", r"\n\n", r"bar\s*\n\s*x"];

const WORDS: [&[u8]; 12] = [b"foo", b"bar", b"", b"x", b"foofoo", b"zzzzzzzzzzzzzzzzzzzzzzz", b"fo", b"o", b"Foo", b"f\xc3\xb6\xc3\xb6", b"barfoo", b"xfoo"];

pub fn gen_line(rng: &mut Rng) -> Vec<u8> {
    let mut l = vec![];
    if rng.chance(1, 40) {
        // a long line: crosses small capacities and forces buffer growth
        let n = 100 + rng.below(3000);
        for i in 0..n {
            l.push(b"abcdefgh o"[(i + rng.below(3)) % 10]);
        }
        if rng.chance(1, 2) {
            l.extend_from_slice(b" foo");
        }
        return l;
    }
    for w in 0..rng.below(4) {
        if w > 0 {
            l.push(b' ');
        }
        l.extend_from_slice(WORDS[rng.below(WORDS.len())]);
    }
    l
}

pub fn gen_text(rng: &mut Rng, term: Term, max_lines: usize) -> Vec<u8> {
    let mut data = vec![];
    let spaced = rng.chance(1, 4);
    let nl = if rng.chance(1, 12) { 0 } else { rng.below(max_lines + 1) };
    let gap = 1 + rng.below(8);
    for i in 0..nl {
        if spaced {
            // matches at controlled distances, everything else is filler
            let hit = i % gap == 0 || rng.chance(1, 9);
            data.extend_from_slice(if hit { b"foo" } else { b"qq" });
        } else {
            data.extend_from_slice(&gen_line(rng));
        }
        match term {
            Term::Lf => data.push(b'\n'),
            Term::Nul => {
                // in NUL mode a newline is an ordinary byte
                if rng.chance(1, 6) {
                    data.push(b'\n');
                    data.extend_from_slice(b"foo");
                } else if rng.chance(1, 6) {
                    // several of them in one record (more than any context window counts)
                    for _ in 0..2 + rng.below(6) {
                        data.push(b'\n');
                        data.extend_from_slice(if rng.chance(1, 3) { b"qq" } else { b"" });
                    }
                }
                data.push(0)
            }
            Term::Crlf => match rng.below(8) {
                0 => data.push(b'\n'),
                1 => data.extend_from_slice(b"\r\r\n"),
                _ => data.extend_from_slice(b"\r\n"),
            },
        }
    }
    if !data.is_empty() && rng.chance(1, 3) {
        // no final terminator
        data.pop();
        if term == Term::Crlf && data.last() == Some(&b'\r') && rng.chance(1, 2) {
            data.pop();
        }
    }
    data
}

pub fn gen_cfg(rng: &mut Rng) -> Cfg {
    let term = match rng.below(8) {
        0 => Term::Crlf,
        1 => Term::Nul,
        _ => Term::Lf,
    };
    let ctx = rng.chance(2, 3);
    Cfg {
        a: if ctx { rng.below(5) } else { 0 },
        b: if ctx { rng.below(5) } else { 0 },
        passthru: rng.chance(1, 7),
        invert: rng.chance(1, 4),
        line_number: !rng.chance(1, 4),
        stop_nm: rng.chance(1, 6),
        multi_line: rng.chance(1, 5),
        term,
        bin: Bin::None,
        encoding: None,
    }
}

/// Case for C02/C03: line patterns only, binary detection off.
pub fn gen_case_line(sub: u64, big_ok: bool) -> Case {
    let mut rng = Rng::new(sub);
    let cfg = gen_cfg(&mut rng);
    let mut data = gen_text(&mut rng, cfg.term, 60);
    if big_ok && rng.chance(1, 250) {
        // cross the default 64 KiB capacity without the capacity hook
        let target = 70_000 + rng.below(130_000);
        while data.len() < target {
            let more = gen_text(&mut rng, cfg.term, 60);
            if more.is_empty() {
                data.extend_from_slice(b"foo");
                data.push(cfg.term.byte());
            }
            if !data.is_empty() && *data.last().unwrap() != cfg.term.byte() {
                data.push(cfg.term.byte());
            }
            data.extend_from_slice(&more);
        }
    }
    let pattern = LINE_PATTERNS[rng.below(LINE_PATTERNS.len())].to_string();
    Case { data, pattern, cfg }
}

thread_local!(static MATCHERS: std::cell::RefCell<std::collections::HashMap<String, Result<RegexMatcher, String>>> = Default::default());

/// Matchers are cached per thread: compiling a regex costs far more than a
/// simulated search of a small input.
pub fn build_matcher(case: &Case) -> Result<RegexMatcher, String> {
    let key = format!("{}|{}|{}|{}", case.pattern, case.cfg.multi_line, case.cfg.term.name(), case.cfg.bin != Bin::None);
    MATCHERS.with(|m| {
        let mut m = m.borrow_mut();
        if m.len() > 4096 {
            m.clear();
        }
        m.entry(key).or_insert_with(|| build_matcher_uncached(case)).clone()
    })
}

fn build_matcher_uncached(case: &Case) -> Result<RegexMatcher, String> {
    let mut b = RegexMatcherBuilder::new();
    b.multi_line(true).octal(false);
    let cfg = &case.cfg;
    if cfg.multi_line {
        if cfg.term == Term::Crlf {
            b.crlf(true).line_terminator(None);
        }
    } else {
        b.line_terminator(Some(b'\n')).dot_matches_new_line(false);
        if cfg.term == Term::Crlf {
            b.crlf(true);
        }
        if cfg.term == Term::Nul {
            b.line_terminator(Some(0));
        }
    }
    if cfg.bin != Bin::None {
        b.ban_byte(Some(0));
    }
    b.build(&case.pattern).map_err(|e| e.to_string())
}

#[derive(Clone, Copy, Debug, Default)]
pub struct Knobs {
    pub capacity: Option<usize>,
    pub heap_limit: Option<usize>,
    pub mmap: bool,
    /// Request multi-line mode if the case does not, and vice versa (only
    /// used with patterns that cannot match a line terminator).
    pub toggle_ml: bool,
    /// Non-zero: the searcher is not fresh. Before the search under test it
    /// performs a warm-up search (other data, strategy and ending derived from
    /// this value) the way a worker searches file after file with one Searcher.
    pub warm: u64,
    /// The search runs on a clone of the built searcher (ripgrep clones its
    /// searcher once per worker thread).
    pub cloned: bool,
    /// The sink is handed to the searcher inside a Box (the forwarding impl of Sink for Box<S>).
    pub boxed_sink: bool,
}

pub fn build_searcher(cfg: &Cfg, knobs: &Knobs) -> Searcher {
    let mut b = SearcherBuilder::new();
    let lt = match cfg.term {
        Term::Lf => LineTerminator::byte(b'\n'),
        Term::Crlf => LineTerminator::crlf(),
        Term::Nul => LineTerminator::byte(0),
    };
    b.line_terminator(lt)
        .invert_match(cfg.invert)
        .line_number(cfg.line_number)
        .multi_line(cfg.multi_line)
        .stop_on_nonmatch(cfg.stop_nm)
        .heap_limit(knobs.heap_limit)
        .verif_buffer_capacity(knobs.capacity)
        .memory_map(if knobs.mmap { unsafe { MmapChoice::auto() } } else { MmapChoice::never() });
    if cfg.passthru {
        // passthru overrides the context settings whichever setter was called first
        match (cfg.invert as usize + 2 * cfg.stop_nm as usize + knobs.capacity.unwrap_or(0)) % 3 {
            0 => {
                b.passthru(true);
            }
            1 => {
                b.passthru(true).after_context(cfg.a.max(1)).before_context(cfg.b);
            }
            _ => {
                b.before_context(cfg.b).after_context(cfg.a.max(1)).passthru(true);
            }
        }
    } else {
        b.before_context(cfg.b).after_context(cfg.a);
    }
    b.binary_detection(match cfg.bin {
        Bin::None => BinaryDetection::none(),
        Bin::Quit => BinaryDetection::quit(0),
        Bin::Convert => BinaryDetection::convert(0),
    });
    match cfg.encoding.as_deref() {
        None => {}
        Some("none") => {
            b.bom_sniffing(false);
        }
        Some(label) => {
            b.encoding(Some(Encoding::new(label).expect("encoding label")));
        }
    }
    let s = b.build();
    if knobs.cloned {
        s.clone()
    } else {
        s
    }
}

pub const CAPACITIES: [usize; 11] = [1, 2, 3, 5, 8, 16, 31, 64, 257, 4096, 65536];
