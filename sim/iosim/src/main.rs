//! E1 `iosim` — library-level I/O simulator.
//!
//! One process, no real I/O on the simulated paths. Real code: grep-searcher
//! (Searcher, LineBuffer, Core, ReadByLine, SliceByLine, MultiLine),
//! grep-regex, grep-matcher, encoding_rs_io, grep-printer. Simulated: every
//! `read()` outcome (SimReader), the result consumer (SimSink: stop/error at
//! event k), the output writer (SimWriter: error after k bytes), the roll
//! buffer capacity and heap limit.

mod c02;
mod c14;
mod c16;
mod c17;
mod case;
mod model;
mod run;
mod sim;

use serde_json::json;
use simcore::*;

fn components() -> serde_json::Value {
    json!({
        "real": ["grep-searcher (Searcher, LineBuffer, Core, ReadByLine, SliceByLine, MultiLine, mmap)", "grep-regex RegexMatcher", "grep-matcher", "encoding_rs_io / encoding_rs", "grep-printer (Standard, Summary, JSON) where a printer leg is used", "tmpfs file via std::fs for the search_path legs"],
        "simulated": ["io::Read source (SimReader: seeded read sizes, EINTR, tagged errors)", "Sink (SimSink: records events, stop/error injected at event k)", "io::Write (SimWriter: error after k bytes)", "roll-buffer capacity (hook H2) and heap limit"]
    })
}

/// When this engine contributes one leg of a property (`--partial <file>`), another engine
/// merges and reports: dump what this leg covered and found instead of printing a verdict.
fn dump_partial(opts: &Opts, rep: &Report) -> Option<i32> {
    let path = opts.get("partial")?;
    // at most 25 violations per class travel to the merging engine
    let mut per_class: std::collections::BTreeMap<&str, u64> = Default::default();
    let kept: Vec<&Violation> = rep
        .violations
        .iter()
        .filter(|v| {
            let n = per_class.entry(v.class.as_str()).or_insert(0);
            *n += 1;
            *n <= 25
        })
        .collect();
    let v = json!({
        "evaluations": rep.evaluations, "distinct": rep.distinct.iter().collect::<Vec<_>>(), "faults": rep.faults.to_json(), "probes": rep.probes.to_json(),
        "samples": rep.samples, "rule": rep.rule, "extra": rep.extra, "wall_s": rep.elapsed(),
        "violations": kept.iter().map(|v| json!({"class": v.class, "summary": v.summary, "subseed": v.subseed, "replay": v.replay})).collect::<Vec<_>>(),
        "violations_total": rep.violations.len(),
    });
    write_json(std::path::Path::new(path), &v);
    println!("{} library leg: evaluations={} violations={} -> {path}", opts.property, rep.evaluations, rep.violations.len());
    Some(0)
}

fn drive_c02_c03(opts: &Opts) -> i32 {
    let prop = opts.property.clone();
    let rule = if prop == "C02" {
        "one evaluation = one complete search of a generated input (0-60 lines, LF/CRLF/NUL terminators, long lines, occasionally 70-200 KiB) with the real Searcher under one simulated strategy: the in-memory slice (reference), an incremental reader under a seeded read history (style: 1-byte, small, geometric, terminator-aligned, anti-aligned, bursts, fixed, full; EINTR at random reads) with a randomised roll-buffer capacity (1 B..64 KiB) , a tmpfs file with and without mmap, multi-line mode toggled, heap limit bisected to just-sufficient and one below. Oracle: event stream (kinds, bytes, line numbers, offsets, separators, final byte count) identical to the slice run. distinct_nontrivial = distinct generated cases (hash of input, pattern, configuration) in which results were delivered and the reader needed more than two reads (the buffer rolled) under at least one history."
    } else {
        "same simulated runs as C02 (slice, readers under seeded read histories and buffer capacities, file/mmap, multi-line toggled), judged against an independent executable grep model (split at terminator, regex crate per line, textbook context windows, separators, numbering, offsets, stop-on-nonmatch) plus in-run sink invariants (offsets strictly increasing). distinct_nontrivial = distinct generated cases with delivered results whose buffer rolled under at least one history."
    };
    let mut rep = Report::new(opts, "exploration", rule);
    let cases = opts.cases(120_000, 3_000_000);
    let histories = if opts.thorough() { 20 } else { 10 };
    let label = "c02c03";
    let seed = opts.seed;
    let deadline = Deadline::new(opts.budget_s());
    let skipped = std::sync::atomic::AtomicU64::new(0);
    let run_range = |jobs: usize, n: u64| -> c02::Acc {
        let accs = par_fold(
            jobs,
            n,
            64,
            || (c02::Acc::new(), Scratch::new("iosim")),
            |i, st: &mut (c02::Acc, Scratch)| {
                if deadline.passed() && i >= 1500 {
                    skipped.fetch_add(1, std::sync::atomic::Ordering::Relaxed);
                    return;
                }
                let sub = subseed(seed, label, i);
                let (acc, scratch) = st;
                c02::run_case(&prop, sub, histories, scratch.path(), acc);
                if i < 1500 {
                    acc.digests.push((i, acc.cur_digest));
                }
            },
        );
        let mut total = c02::Acc::new();
        for (a, _s) in accs {
            total.merge(a);
        }
        total
    };
    let total = run_range(opts.jobs, cases);
    // determinism self-test: same sub-seeds, different worker count
    let st_n = cases.min(if opts.thorough() { 1500 } else { 400 });
    let again = run_range(3, st_n);
    let d1: std::collections::BTreeMap<u64, u64> = total.digests.iter().cloned().collect();
    let mut mism = 0;
    for (i, d) in &again.digests {
        if d1.get(i) != Some(d) {
            mism += 1;
        }
    }
    if mism > 0 {
        harness_error(&format!("determinism self-test failed: {mism} of {} re-executed cases differ", again.digests.len()));
    }
    rep.evaluations = total.evals + again.evals;
    rep.distinct = total.distinct;
    rep.faults = total.faults;
    rep.probes = total.probes;
    rep.samples = total.samples.into_iter().take(4).collect();
    rep.violations = total.violations;
    rep.extra.insert("history_style_mix".into(), total.styles.to_json());
    rep.extra.insert("cases_skipped_by_time_budget".into(), json!(skipped.load(std::sync::atomic::Ordering::Relaxed)));
    rep.extra.insert("determinism_selftest".into(), json!({"cases_reexecuted": again.digests.len(), "mismatches": 0, "worker_threads": [opts.jobs, 3]}));
    rep.extra.insert("components".into(), components());
    rep.extra.insert("generated_cases".into(), json!(cases));
    rep.assumptions = vec![
        "the pattern pool is restricted to patterns that cannot match a line terminator and whose per-line meaning is uncontroversial (regex semantics are C01's subject, not judged here)".into(),
        "stop-on-nonmatch is never combined with a multi-line request (the command line documents that it overrides -U)".into(),
        "binary detection is off (C14 owns it)".into(),
        "seeded sampling: a clean batch is evidence, not proof".into(),
    ];
    if let Some(code) = dump_partial(opts, &rep) {
        return code;
    }
    rep.finish()
}

/// Driver for properties whose per-case function needs a scratch directory.
fn drive_scratch(opts: &Opts, level: &str, label: &str, cases: u64, rule: &str, f: impl Fn(u64, &std::path::Path, &mut c02::Acc) + Sync) -> i32 {
    thread_local!(static SCRATCH: Scratch = Scratch::new("iosim"));
    drive_simple(opts, level, label, cases, rule, |sub, acc| SCRATCH.with(|s| f(sub, s.path(), acc)))
}

/// Driver for properties whose per-case function needs no scratch directory.
fn drive_simple(opts: &Opts, level: &str, label: &str, cases: u64, rule: &str, f: impl Fn(u64, &mut c02::Acc) + Sync) -> i32 {
    let mut rep = Report::new(opts, level, rule);
    let seed = opts.seed;
    let deadline = Deadline::new(opts.budget_s());
    let skipped = std::sync::atomic::AtomicU64::new(0);
    let run_range = |jobs: usize, n: u64| -> c02::Acc {
        let accs = par_fold(jobs, n, 32, c02::Acc::new, |i, acc: &mut c02::Acc| {
            if deadline.passed() && i >= 1500 {
                skipped.fetch_add(1, std::sync::atomic::Ordering::Relaxed);
                return;
            }
            let before = (acc.evals, acc.violations.len());
            f(subseed(seed, label, i), acc);
            if i < 1500 {
                // digest: evaluations and violations produced by this case
                let d = fnv_step(fnv_step(i, acc.evals - before.0), (acc.violations.len() - before.1) as u64);
                acc.digests.push((i, d));
            }
        });
        let mut total = c02::Acc::new();
        for a in accs {
            total.merge(a);
        }
        total
    };
    let total = run_range(opts.jobs, cases);
    let st_n = cases.min(if opts.thorough() { 1500 } else { 300 });
    let again = run_range(3, st_n);
    let d1: std::collections::BTreeMap<u64, u64> = total.digests.iter().cloned().collect();
    let mism = again.digests.iter().filter(|(i, d)| d1.get(i) != Some(d)).count();
    if mism > 0 {
        harness_error(&format!("determinism self-test failed: {mism} of {} re-executed cases differ", again.digests.len()));
    }
    rep.evaluations = total.evals + again.evals;
    rep.distinct = total.distinct;
    rep.faults = total.faults;
    rep.probes = total.probes;
    rep.samples = total.samples.into_iter().take(4).collect();
    rep.violations = total.violations;
    rep.extra.insert("strategy_mix".into(), total.styles.to_json());
    rep.extra.insert("cases_skipped_by_time_budget".into(), json!(skipped.load(std::sync::atomic::Ordering::Relaxed)));
    rep.extra.insert("determinism_selftest".into(), json!({"cases_reexecuted": again.digests.len(), "mismatches": 0, "worker_threads": [opts.jobs, 3]}));
    rep.extra.insert("components".into(), components());
    rep.extra.insert("generated_cases".into(), json!(cases));
    rep.extra.insert("exhaustive_within_case".into(), json!(true));
    rep.assumptions = vec!["crash points are enumerated exhaustively within each generated case; cases themselves are sampled from the seed".into()];
    if let Some(code) = dump_partial(opts, &rep) {
        return code;
    }
    rep.finish()
}

fn main() {
    let opts = Opts::parse();
    if std::env::var_os("IOSIM_PANIC_MESSAGES").is_none() {
        std::panic::set_hook(Box::new(|_| {}));
    }
    if let Some(p) = &opts.replay {
        let v = read_json(p);
        let prop = v["property"].as_str().unwrap_or(&opts.property).to_string();
        let scratch = Scratch::new("ioreplay");
        let r = match v["kind"].as_str().unwrap_or("") {
            "c02c03" => c02::replay(&prop, &v, scratch.path()),
            "c16" | "c16-printer" => c16::replay(&v),
            "c17" => c17::replay(&v, scratch.path()),
            "c14" => c14::replay(&v),
            k => harness_error(&format!("unknown replay kind {k}")),
        };
        match r {
            Some((class, summary)) => {
                println!("VIOLATION property={} replay={}", prop, p.display());
                println!("  class={class} {summary}");
                std::process::exit(1);
            }
            None => {
                println!("replay: property held on this case");
                std::process::exit(0);
            }
        }
    }
    let code = match opts.property.as_str() {
        "C02" | "C03" => drive_c02_c03(&opts),
        "C16" => drive_simple(&opts, "fault_enumeration", "c16", opts.cases(200_000, 3_000_000),
            "per generated case (<=24 lines; LF/CRLF; line and multi-line patterns; binary detection none/quit/convert with a planted NUL) the uninterrupted event stream E is recorded for the slice strategy and for a reader under a seeded history and buffer capacity; then EVERY crash point of that case is executed: each event index k (begin, match, context, separator, binary notice) x {stop, error} and each read index j x {error, Interrupted}; plus the Standard/JSON/Summary printers with max_matches=N for every N in 0..#matches+1 (slice and reader) and a writer failing after k bytes. One evaluation = one search run with one injected crash point. distinct_nontrivial = distinct generated cases whose uninterrupted stream has more than two events.",
            |sub, acc| c16::run_case(sub, acc)),
        "C14" => drive_scratch(&opts, "exploration", "c14", opts.cases(40_000, 1_500_000),
            "library leg: one evaluation = one search of generated text with 1-3 planted NUL bytes (first byte, last byte, inside or just after a matching line, around the 64 KiB sniff window, late, anywhere; 1 in 25 inputs > 70 KB) with binary detection none/quit/convert, as a slice and through 6 SimReader histories with randomised buffer capacity, in line and multi-line mode, recorded by SimSink and additionally printed by the Standard, Summary(count) and JSON printers into SimWriter.",
            |sub, scratch, acc| c14::run_case(sub, scratch, acc)),
        "C17" => {
            let histories = if opts.thorough() { 16 } else { 8 };
            drive_scratch(&opts, "exploration", "c17", opts.cases(50_000, 1_500_000),
                "one evaluation = one search of generated text (ASCII, BMP, astral characters, optionally starting with U+FEFF; 0-40 lines, 1 in 16 cases 300-1800 lines so that the 8 KiB transcoding buffer and the roll buffer are crossed) encoded as UTF-16LE/BE with BOM (optionally with lone surrogates, an odd trailing byte, a conflicting explicit label), UTF-8 with BOM (optionally with a label), UTF-16 by label without BOM, UTF-8 by label with a malformed byte, windows-1252 / shift_jis / euc-kr by label, or raw with encoding none; searched as a slice, through SimReader histories (one always splitting code units: fixed 1/3/5/7-byte reads; EINTR incl. during BOM sniffing) with randomised buffer capacity, and through a tmpfs file with/without mmap. Oracle: event stream identical to search_slice over the one-shot encoding_rs decode of the input (mark overrides label, mark removed, malformed -> U+FFFD; encoding none -> raw bytes). distinct_nontrivial = distinct cases with delivered results whose reader needed more than two reads.",
                move |sub, scratch, acc| c17::run_case(sub, histories, scratch, acc))
        }
        p => harness_error(&format!("iosim does not serve {p}")),
    };
    std::process::exit(code);
}
