//! C14, library leg — binary data never reaches the writer unless detection
//! is disabled: NUL placement x strategy x read history x printer.

use crate::c02::{gen_history, gen_knobs, Acc};
use crate::case::*;
use crate::run::*;
use crate::sim::*;
use grep_printer::{JSONBuilder, StandardBuilder, SummaryBuilder, SummaryKind};
use serde_json::{json, Value};
use simcore::*;
use std::path::Path;

fn gen_case(sub: u64) -> (Case, Vec<String>) {
    let mut rng = Rng::new(sub);
    let mut cfg = gen_cfg(&mut rng);
    cfg.term = Term::Lf;
    cfg.stop_nm = false;
    cfg.multi_line = rng.chance(1, 4);
    cfg.bin = match rng.below(7) {
        0 => Bin::None,
        1..=3 => Bin::Quit,
        _ => Bin::Convert,
    };
    let mut data = gen_text(&mut rng, Term::Lf, 40);
    if rng.chance(1, 25) {
        // large enough to cross the 64 KiB sniff window of the slice strategies
        while data.len() < 70_000 {
            data.extend_from_slice(&gen_text(&mut rng, Term::Lf, 60));
            data.extend_from_slice(b"foo tail\n");
        }
    }
    let mut placed = vec![];
    if !data.is_empty() {
        let lines = crate::model::split_lines(&data, b'\n');
        let n = 1 + rng.below(3);
        for _ in 0..n {
            let (pos, how) = match rng.below(9) {
                0 => (0, "first-byte"),
                1 => (data.len() - 1, "last-byte"),
                2 | 3 => {
                    // inside a line that contains foo, if any
                    let hits: Vec<&(usize, usize)> = lines.iter().filter(|(s, e)| data[*s..*e].windows(3).any(|w| w == b"foo")).collect();
                    if hits.is_empty() {
                        (rng.below(data.len()), "anywhere")
                    } else {
                        let (s, e) = *hits[rng.below(hits.len())];
                        (s + rng.below(e - s), "inside-matching-line")
                    }
                }
                4 => {
                    let hits: Vec<&(usize, usize)> = lines.iter().filter(|(s, e)| data[*s..*e].windows(3).any(|w| w == b"foo")).collect();
                    if hits.is_empty() {
                        (rng.below(data.len()), "anywhere")
                    } else {
                        let (_, e) = *hits[rng.below(hits.len())];
                        (e.min(data.len() - 1), "just-after-matching-line")
                    }
                }
                5 if data.len() > 65_540 => ([65_535usize, 65_536, 65_537, 66_000][rng.below(4)], "around-64KiB-sniff-window"),
                6 => ((data.len() * 3 / 4).min(data.len() - 1), "late"),
                _ => (rng.below(data.len()), "anywhere"),
            };
            data[pos] = 0;
            placed.push(format!("{how}@{pos}"));
        }
    }
    // one case in four: a pattern that could match a NUL byte itself (the command line bans
    // the byte from the regex whenever detection is on; the matcher is built the same way here)
    const NUL_CAPABLE: [&str; 7] = ["[^a]oo", r"foo\W", r"(?s-u)o.", r"\Sfoo", r"o\x00?", r"(?-u:[\x00-\x20])foo", r"(?s)foo.*?bar"];
    let pattern = if rng.chance(1, 4) {
        NUL_CAPABLE[rng.below(NUL_CAPABLE.len())]
    } else if cfg.multi_line && rng.chance(1, 2) {
        ML_PATTERNS[rng.below(ML_PATTERNS.len())]
    } else {
        LINE_PATTERNS[rng.below(LINE_PATTERNS.len())]
    }
    .to_string();
    (Case { data, pattern, cfg }, placed)
}

fn printer_run(case: &Case, knobs: &Knobs, strat: &Strategy, printer: &str) -> Result<(Vec<u8>, Result<(), String>), String> {
    let matcher = build_matcher(case)?;
    let mut searcher = build_searcher(&case.cfg, knobs);
    macro_rules! go {
        ($p:expr, $inner:expr) => {{
            let mut p = $p;
            let res = match strat {
                Strategy::Slice => searcher.search_slice(&matcher, &case.data, p.sink(&matcher)),
                Strategy::Reader(h) => searcher.search_reader(&matcher, SimReader::new(&case.data, h, b'\n'), p.sink(&matcher)),
                Strategy::Path { .. } | Strategy::File { .. } | Strategy::Special { .. } => unreachable!(),
            };
            let w: SimWriter = $inner(p);
            Ok((w.out, res.map_err(|e| e.to_string())))
        }};
    }
    match printer {
        "standard" => go!(StandardBuilder::new().build_no_color(SimWriter::new(None)), |p: grep_printer::Standard<termcolor::NoColor<SimWriter>>| p.into_inner().into_inner()),
        "summary-count" => go!(SummaryBuilder::new().kind(SummaryKind::Count).build_no_color(SimWriter::new(None)), |p: grep_printer::Summary<termcolor::NoColor<SimWriter>>| p.into_inner().into_inner()),
        _ => go!(JSONBuilder::new().build(SimWriter::new(None)), |p: grep_printer::JSON<SimWriter>| p.into_inner()),
    }
}

fn check(case: &Case, knobs: &Knobs, strat: &Strategy, nobin: &RunOut) -> Option<(String, String)> {
    let kind = strat.kind();
    let out = run(case, knobs, strat, None, None);
    if let Some(p) = &out.panicked {
        return Some((format!("panic:{kind}"), p.clone()));
    }
    if let Err((_, m)) = &out.res {
        return Some((format!("error:{kind}"), format!("search failed: {m}")));
    }
    let binary_evs: Vec<u64> = out.evs.iter().filter_map(|e| if let Ev::Binary(o) = e { Some(*o) } else { None }).collect();
    if case.cfg.bin == Bin::None {
        if !binary_evs.is_empty() {
            return Some((format!("notice-with-detection-off:{kind}"), "binary notice delivered although detection is disabled".into()));
        }
        return None;
    }
    if binary_evs.len() > 1 {
        return Some((format!("binary-notice-twice:{kind}"), format!("binary_data called {} times", binary_evs.len())));
    }
    for o in &binary_evs {
        if case.data.get(*o as usize) != Some(&0) {
            return Some((format!("binary-offset-wrong:{kind}"), format!("binary notice at offset {o}, which is not a NUL byte of the input")));
        }
    }
    if let Some(Ev::Finish { bin, .. }) = out.evs.last() {
        if *bin != binary_evs.first().cloned() {
            return Some((format!("finish-offset-inconsistent:{kind}"), format!("finish reports {:?}, notice was {:?}", bin, binary_evs.first())));
        }
        if let Some(b) = bin {
            if case.data.get(*b as usize) != Some(&0) {
                return Some((format!("binary-offset-wrong:{kind}"), format!("finish reports binary offset {b}, not a NUL byte")));
            }
        }
    }
    if case.cfg.bin == Bin::Quit {
        // nothing with a NUL in it is delivered, and what is delivered is a prefix of the detection-free results
        for e in &out.evs {
            if let Some((off, b)) = e.line() {
                if b.contains(&0) {
                    return Some((format!("nul-delivered-in-quit-mode:{kind}"), format!("line at offset {off} containing a NUL byte was delivered in quit mode")));
                }
            }
        }
        let got: Vec<&Ev> = out.evs.iter().filter(|e| !matches!(e, Ev::Binary(_) | Ev::Finish { .. })).collect();
        let full: Vec<&Ev> = nobin.evs.iter().filter(|e| !matches!(e, Ev::Finish { .. })).collect();
        // (line strategies only: a multi-line match that spans the NUL is cut differently)
        let ml = build_matcher(case).map(|m| build_searcher(&case.cfg, knobs).multi_line_with_matcher(&m)).unwrap_or(false);
        if !ml && (got.len() > full.len() || got[..] != full[..got.len()]) {
            return Some((format!("quit-mode-not-a-prefix:{kind}"), format!("results in quit mode are not a prefix of the detection-free results: [{}] vs [{}]", brief(&out.evs), brief(&nobin.evs))));
        }
        // a reader examines every byte: if the input has a NUL and nobody stopped the search, it must be noticed
        // (line strategy only: in multi-line mode a reader is read to the end first and then treated as a slice)
        if !ml && matches!(strat, Strategy::Reader(_)) && case.data.contains(&0) && binary_evs.is_empty() {
            return Some((format!("nul-not-noticed:{kind}"), "the reader strategy read a NUL byte but never signalled binary data".into()));
        }
        if !ml && matches!(strat, Strategy::Reader(_)) && !binary_evs.is_empty() {
            let z = case.data.iter().position(|&b| b == 0).unwrap() as u64;
            if binary_evs[0] != z {
                return Some((format!("binary-offset-not-first:{kind}"), format!("reader strategy reports offset {} but the first NUL is at {z}", binary_evs[0])));
            }
        }
    }
    // the safety claim: no NUL reaches the writer, whatever the printer
    for printer in ["standard", "summary-count", "json"] {
        match printer_run(case, knobs, strat, printer) {
            Ok((bytes, res)) => {
                if let Err(e) = res {
                    return Some((format!("printer-error:{printer}:{kind}"), e));
                }
                if let Some(p) = bytes.iter().position(|&b| b == 0) {
                    return Some((format!("nul-written:{printer}:{kind}"), format!("the {printer} printer wrote a NUL byte at output offset {p}: {:?}", show(&bytes[p.saturating_sub(40)..(p + 10).min(bytes.len())]))));
                }
            }
            Err(_) => {}
        }
    }
    None
}

pub fn run_case(sub: u64, _scratch: &Path, acc: &mut Acc) {
    let (case, placed) = gen_case(sub);
    if build_matcher(&case).is_err() {
        return;
    }
    let mut rng = Rng::new(sub ^ 0xC14);
    let mut nb = case.clone();
    nb.cfg.bin = Bin::None;
    if build_matcher(&nb).is_err() {
        return;
    }
    let nobin = run(&nb, &Knobs::default(), &Strategy::Slice, None, None);
    acc.evals += 1;
    let mut strategies: Vec<(Strategy, Knobs)> = vec![(Strategy::Slice, Knobs::default())];
    for i in 0..6 {
        let mut k = gen_knobs(&mut rng);
        if i >= 4 {
            // the searcher has been used before: a seeded earlier search (complete, stopped, or
            // failed at some read - also at the one after the last byte) leaves nothing behind
            k.warm = rng.next() | 1;
        }
        strategies.push((Strategy::Reader(gen_history(&mut rng)), k));
    }
    for p in &placed {
        acc.faults.inc(&format!("NUL:{}", p.split('@').next().unwrap()));
    }
    acc.styles.inc(match case.cfg.bin {
        Bin::None => "detection:none",
        Bin::Quit => "detection:quit",
        Bin::Convert => "detection:convert",
    });
    let mut nontrivial = false;
    for (strat, knobs) in &strategies {
        acc.evals += 4;
        if case.data.contains(&0) && nobin.evs.iter().any(|e| e.line().is_some()) {
            nontrivial = true;
        }
        if let Strategy::Reader(h) = strat {
            if let Style::Fixed(n) = h.style {
                if case.data.iter().enumerate().any(|(i, &b)| b == 0 && i % n == 0) {
                    acc.probes.inc("NUL-first-byte-of-a-read");
                }
            }
            if h.style == Style::One && case.data.contains(&0) {
                acc.probes.inc("NUL-first-byte-of-a-read");
            }
        }
        // a consumer that answers the binary notice with "stop": nothing is delivered after it,
        // in particular no line holding the binary byte
        if case.cfg.bin != Bin::None {
            let plain = run(&case, knobs, strat, None, None);
            if let Some(kb) = plain.evs.iter().position(|e| matches!(e, Ev::Binary(_))) {
                let o = run(&case, knobs, strat, Some((kb, Answer::Stop)), None);
                acc.evals += 1;
                acc.faults.inc("consumer-stops-at-the-binary-notice");
                let after: Vec<&Ev> = o.evs.iter().skip(kb + 1).filter(|e| !e.is_finish()).collect();
                if !after.is_empty() && acc.violations.iter().filter(|v| v.class.starts_with("delivered-after-binary-stop")).count() < 10 {
                    acc.violations.push(Violation {
                        property: "C14".into(),
                        class: format!("delivered-after-binary-stop:{}", strat.kind()),
                        summary: format!("{}: the consumer answered stop to the binary notice, yet {} more results followed: [{}]", strat.name(), after.len(), brief(&o.evs)),
                        subseed: sub,
                        replay: json!({"engine": "iosim", "kind": "c14", "case": case.to_json(), "knobs": knobs_json(knobs), "strategy": strat.to_json(), "nul_placement": placed, "stop_at_binary_notice": true}),
                    });
                }
            }
        }
        if let Some((class, summary)) = check(&case, knobs, strat, &nobin) {
            if acc.violations.iter().filter(|v| v.class == class).count() < 20 {
                acc.violations.push(Violation {
                    property: "C14".into(),
                    class,
                    summary,
                    subseed: sub,
                    replay: json!({"engine": "iosim", "kind": "c14", "case": case.to_json(), "knobs": knobs_json(knobs), "strategy": strat.to_json(), "nul_placement": placed}),
                });
            }
        }
    }
    if nontrivial {
        acc.distinct.insert(fnv(&case.data) ^ fnv(case.pattern.as_bytes()).rotate_left(3) ^ case.cfg.class());
    }
    if acc.samples.len() < 2 && nontrivial && case.data.len() < 300 {
        let o = run(&case, &Knobs::default(), &Strategy::Slice, None, None);
        acc.samples.push(json!({"subseed": sub, "leg": "library", "pattern": case.pattern, "cfg": case.cfg.to_json(), "input": show(&case.data), "nul_placement": placed, "events_slice": brief(&o.evs), "events_detection_off": brief(&nobin.evs)}));
    }
}

pub fn replay(v: &Value) -> Option<(String, String)> {
    let case = Case::from_json(&v["case"]);
    let knobs = knobs_from_json(&v["knobs"]);
    let strat = Strategy::from_json(&v["strategy"]);
    let mut nb = case.clone();
    nb.cfg.bin = Bin::None;
    let nobin = run(&nb, &Knobs::default(), &Strategy::Slice, None, None);
    let o = run(&case, &knobs, &strat, None, None);
    println!("replay: events {}", brief(&o.evs));
    if v["stop_at_binary_notice"].as_bool() == Some(true) {
        let kb = o.evs.iter().position(|e| matches!(e, Ev::Binary(_)))?;
        let o2 = run(&case, &knobs, &strat, Some((kb, Answer::Stop)), None);
        let after = o2.evs.iter().skip(kb + 1).filter(|e| !e.is_finish()).count();
        return if after > 0 { Some((format!("delivered-after-binary-stop:{}", strat.kind()), format!("{after} results after the stop: [{}]", brief(&o2.evs)))) } else { None };
    }
    check(&case, &knobs, &strat, &nobin)
}
