//! The simulated environment of a search: reader, sink and writer.

use grep_searcher::{Searcher, Sink, SinkContext, SinkContextKind, SinkFinish, SinkMatch};
use serde_json::{json, Value};
use simcore::{show, Rng};
use std::io;

pub const TAG_READ: &str = "INJECTED-READ-ERROR";
pub const TAG_SINK: &str = "INJECTED-SINK-ERROR";
/// The kind of an injected error depends on where it is injected, so that "the error is handed
/// back to the caller" can be checked for its kind as well as for its message.
pub const ERR_KINDS: [io::ErrorKind; 6] = [io::ErrorKind::Other, io::ErrorKind::WouldBlock, io::ErrorKind::TimedOut, io::ErrorKind::PermissionDenied, io::ErrorKind::UnexpectedEof, io::ErrorKind::BrokenPipe];
pub const TAG_WRITE: &str = "INJECTED-WRITE-ERROR";

// ---------------------------------------------------------------------------
// Events

#[derive(Clone, Debug, PartialEq, Eq)]
pub enum Ev {
    Begin,
    Match { ln: Option<u64>, off: u64, bytes: Vec<u8> },
    /// kind: 0 before, 1 after, 2 other
    Ctx { kind: u8, ln: Option<u64>, off: u64, bytes: Vec<u8> },
    Break,
    Binary(u64),
    Finish { bytes: u64, bin: Option<u64> },
}

impl Ev {
    pub fn brief(&self) -> String {
        match self {
            Ev::Begin => "B".into(),
            Ev::Match { ln, off, bytes } => format!("M{}@{}+{}", ln.map(|n| n.to_string()).unwrap_or_default(), off, bytes.len()),
            Ev::Ctx { kind, ln, off, bytes } => format!("C{}{}@{}+{}", ["b", "a", "o"][*kind as usize], ln.map(|n| n.to_string()).unwrap_or_default(), off, bytes.len()),
            Ev::Break => "--".into(),
            Ev::Binary(o) => format!("BIN@{o}"),
            Ev::Finish { bytes, bin } => format!("F{}{}", bytes, bin.map(|b| format!("/bin@{b}")).unwrap_or_default()),
        }
    }
    pub fn is_finish(&self) -> bool {
        matches!(self, Ev::Finish { .. })
    }
    /// The same event with the kind of context normalised away (used where
    /// only line identity matters).
    pub fn line(&self) -> Option<(u64, &[u8])> {
        match self {
            Ev::Match { off, bytes, .. } | Ev::Ctx { off, bytes, .. } => Some((*off, bytes)),
            _ => None,
        }
    }
}

pub fn brief(evs: &[Ev]) -> String {
    let mut s: Vec<String> = evs.iter().take(60).map(|e| e.brief()).collect();
    if evs.len() > 60 {
        s.push(format!("...(+{})", evs.len() - 60));
    }
    s.join(" ")
}

pub fn evs_json(evs: &[Ev]) -> Value {
    Value::Array(
        evs.iter()
            .take(200)
            .map(|e| match e {
                Ev::Match { bytes, .. } | Ev::Ctx { bytes, .. } => json!([e.brief(), show(bytes)]),
                _ => json!([e.brief()]),
            })
            .collect(),
    )
}

// ---------------------------------------------------------------------------
// SimSink

#[derive(Clone, Copy, Debug, PartialEq, Eq)]
pub enum Answer {
    Stop,
    Error,
}

/// Records every event and, at event index k, answers stop or error. Also
/// checks the in-run invariants of C03 (they are cheap and hold in every
/// configuration): offsets strictly increasing, no event after a stop/error
/// answer other than Finish.
pub struct SimSink {
    pub evs: Vec<Ev>,
    pub inject: Option<(usize, Answer)>,
    pub answered: bool,
    pub after_answer: usize,
    pub finish_calls: usize,
    pub binary_calls: usize,
    pub invariant: Option<String>,
    last_off: Option<u64>,
}

impl SimSink {
    pub fn new(inject: Option<(usize, Answer)>) -> SimSink {
        SimSink { evs: vec![], inject, answered: false, after_answer: 0, finish_calls: 0, binary_calls: 0, invariant: None, last_off: None }
    }
    fn push(&mut self, e: Ev) -> Result<bool, io::Error> {
        if self.answered {
            self.after_answer += 1;
        }
        if let Some((off, _)) = e.line() {
            if let Some(l) = self.last_off {
                if off <= l && self.invariant.is_none() {
                    self.invariant = Some(format!("offset {off} delivered after offset {l}"));
                }
            }
            self.last_off = Some(off);
        }
        self.evs.push(e);
        let idx = self.evs.len() - 1;
        match self.inject {
            Some((k, Answer::Stop)) if k == idx => {
                self.answered = true;
                Ok(false)
            }
            Some((k, Answer::Error)) if k == idx => {
                self.answered = true;
                Err(io::Error::new(ERR_KINDS[idx % ERR_KINDS.len()], TAG_SINK))
            }
            _ => Ok(true),
        }
    }
}

impl Sink for SimSink {
    type Error = io::Error;
    fn matched(&mut self, _: &Searcher, m: &SinkMatch<'_>) -> Result<bool, io::Error> {
        self.push(Ev::Match { ln: m.line_number(), off: m.absolute_byte_offset(), bytes: m.bytes().to_vec() })
    }
    fn context(&mut self, _: &Searcher, c: &SinkContext<'_>) -> Result<bool, io::Error> {
        let kind = match c.kind() {
            SinkContextKind::Before => 0,
            SinkContextKind::After => 1,
            SinkContextKind::Other => 2,
        };
        self.push(Ev::Ctx { kind, ln: c.line_number(), off: c.absolute_byte_offset(), bytes: c.bytes().to_vec() })
    }
    fn context_break(&mut self, _: &Searcher) -> Result<bool, io::Error> {
        self.push(Ev::Break)
    }
    fn binary_data(&mut self, _: &Searcher, off: u64) -> Result<bool, io::Error> {
        self.binary_calls += 1;
        self.push(Ev::Binary(off))
    }
    fn begin(&mut self, _: &Searcher) -> Result<bool, io::Error> {
        self.push(Ev::Begin)
    }
    fn finish(&mut self, _: &Searcher, f: &SinkFinish) -> Result<(), io::Error> {
        self.finish_calls += 1;
        self.evs.push(Ev::Finish { bytes: f.byte_count(), bin: f.binary_byte_offset() });
        Ok(())
    }
}

// ---------------------------------------------------------------------------
// SimReader

#[derive(Clone, Copy, Debug, PartialEq, Eq)]
pub enum Style {
    /// Every read returns one byte.
    One,
    /// Uniform in 1..=max.
    Small(usize),
    /// Mostly tiny, occasionally large.
    Geometric,
    /// Each read ends exactly after a terminator (or at EOF).
    TermAligned,
    /// Each read ends one byte before or after a terminator (splits \r|\n).
    AntiAligned,
    /// As much as the caller's buffer takes (fault-free baseline).
    Full,
    /// Runs of 1-byte reads alternating with large reads.
    Bursts,
    /// Fixed chunk size (splits 2-byte code units when odd).
    Fixed(usize),
}

impl Style {
    pub fn name(&self) -> String {
        match self {
            Style::One => "one".into(),
            Style::Small(n) => format!("small{n}"),
            Style::Geometric => "geometric".into(),
            Style::TermAligned => "term-aligned".into(),
            Style::AntiAligned => "anti-aligned".into(),
            Style::Full => "full".into(),
            Style::Bursts => "bursts".into(),
            Style::Fixed(n) => format!("fixed{n}"),
        }
    }
    pub fn parse(s: &str) -> Style {
        if let Some(n) = s.strip_prefix("small") {
            return Style::Small(n.parse().unwrap_or(3));
        }
        if let Some(n) = s.strip_prefix("fixed") {
            return Style::Fixed(n.parse().unwrap_or(3));
        }
        match s {
            "one" => Style::One,
            "geometric" => Style::Geometric,
            "term-aligned" => Style::TermAligned,
            "anti-aligned" => Style::AntiAligned,
            "bursts" => Style::Bursts,
            _ => Style::Full,
        }
    }
    pub fn gen(rng: &mut Rng) -> Style {
        match rng.below(12) {
            0 | 1 => Style::One,
            2 => Style::Small(2),
            3 => Style::Small(1 + rng.below(12)),
            4 => Style::Small(1 + rng.below(100)),
            5 => Style::Geometric,
            6 => Style::TermAligned,
            7 | 8 => Style::AntiAligned,
            9 => Style::Bursts,
            10 => Style::Fixed([2, 3, 5, 7, 4095, 4096, 4097, 8191, 8192, 8193][rng.below(10)]),
            _ => Style::Full,
        }
    }
}

#[derive(Clone, Copy, Debug, PartialEq, Eq)]
pub enum ReadFault {
    Error,
    Interrupted,
}

#[derive(Clone, Debug, PartialEq, Eq)]
pub enum ReadOutcome {
    Ok(usize),
    Interrupted,
    Error,
}

/// How a haystack reaches the searcher through `io::Read`.
#[derive(Clone, Debug)]
pub struct History {
    pub style: Style,
    pub seed: u64,
    /// Probability (per 256) that a read is answered with `Interrupted`.
    pub eintr_per_256: u32,
    /// A fault at exactly this read index (0-based, counting every call).
    pub fault_at: Option<(usize, ReadFault)>,
    /// Explicit outcome list to follow first (replay files).
    pub explicit: Vec<usize>,
}

impl History {
    pub fn plain(style: Style, seed: u64) -> History {
        History { style, seed, eintr_per_256: 0, fault_at: None, explicit: vec![] }
    }
    pub fn to_json(&self) -> Value {
        json!({ "style": self.style.name(), "seed": self.seed, "eintr_per_256": self.eintr_per_256,
                "fault_at": self.fault_at.map(|(i, f)| json!([i, if f == ReadFault::Error { "error" } else { "interrupted" }])) })
    }
    pub fn from_json(v: &Value) -> History {
        History {
            style: Style::parse(v["style"].as_str().unwrap_or("full")),
            seed: v["seed"].as_u64().unwrap_or(0),
            eintr_per_256: v["eintr_per_256"].as_u64().unwrap_or(0) as u32,
            fault_at: v["fault_at"].as_array().map(|a| (a[0].as_u64().unwrap_or(0) as usize, if a[1].as_str() == Some("error") { ReadFault::Error } else { ReadFault::Interrupted })),
            explicit: vec![],
        }
    }
}

pub struct SimReader<'a> {
    data: &'a [u8],
    pos: usize,
    h: History,
    rng: Rng,
    term: u8,
    burst_left: usize,
    pub log: Vec<(usize, ReadOutcome)>,
    pub eintr_fired: usize,
    pub error_fired: bool,
    pub reads_after_eof: usize,
    eof_seen: bool,
}

impl<'a> SimReader<'a> {
    pub fn new(data: &'a [u8], h: &History, term: u8) -> SimReader<'a> {
        SimReader { data, pos: 0, rng: Rng::new(h.seed), h: h.clone(), term, burst_left: 0, log: vec![], eintr_fired: 0, error_fired: false, reads_after_eof: 0, eof_seen: false }
    }
    fn want(&mut self) -> usize {
        let rest = &self.data[self.pos..];
        let next_term = rest.iter().position(|&b| b == self.term).map(|i| i + 1);
        match self.h.style {
            Style::One => 1,
            Style::Small(m) => 1 + self.rng.below(m.max(1)),
            Style::Fixed(n) => n.max(1),
            Style::Geometric => {
                let mut n = 1;
                while n < 1 << 16 && self.rng.chance(1, 2) {
                    n *= 2 + self.rng.below(3);
                }
                n
            }
            Style::TermAligned => next_term.unwrap_or(rest.len().max(1)),
            Style::AntiAligned => match next_term {
                // one byte before the terminator byte, or one after it
                Some(t) if t >= 2 && self.rng.chance(1, 2) => t - 1,
                Some(t) => {
                    if self.rng.chance(1, 2) {
                        t + 1
                    } else {
                        (t - 1).max(1)
                    }
                }
                None => rest.len().max(1),
            },
            Style::Full => usize::MAX,
            Style::Bursts => {
                if self.burst_left > 0 {
                    self.burst_left -= 1;
                    1
                } else if self.rng.chance(1, 3) {
                    self.burst_left = 1 + self.rng.below(12);
                    1
                } else {
                    1 + self.rng.below(5000)
                }
            }
        }
    }
}

impl<'a> io::Read for SimReader<'a> {
    fn read(&mut self, buf: &mut [u8]) -> io::Result<usize> {
        let idx = self.log.len();
        if self.eof_seen {
            self.reads_after_eof += 1;
        }
        if let Some((at, f)) = self.h.fault_at {
            if at == idx {
                match f {
                    ReadFault::Error => {
                        self.error_fired = true;
                        self.log.push((buf.len(), ReadOutcome::Error));
                        return Err(io::Error::new(ERR_KINDS[idx % ERR_KINDS.len()], TAG_READ));
                    }
                    ReadFault::Interrupted => {
                        self.eintr_fired += 1;
                        self.log.push((buf.len(), ReadOutcome::Interrupted));
                        return Err(io::Error::new(io::ErrorKind::Interrupted, "simulated EINTR"));
                    }
                }
            }
        }
        if self.h.eintr_per_256 > 0 && (self.rng.next() & 0xff) < self.h.eintr_per_256 as u64 {
            self.eintr_fired += 1;
            self.log.push((buf.len(), ReadOutcome::Interrupted));
            return Err(io::Error::new(io::ErrorKind::Interrupted, "simulated EINTR"));
        }
        let want = if idx < self.h.explicit.len() { self.h.explicit[idx] } else { self.want() };
        let n = want.min(buf.len()).min(self.data.len() - self.pos);
        buf[..n].copy_from_slice(&self.data[self.pos..self.pos + n]);
        self.pos += n;
        if n == 0 && !buf.is_empty() {
            self.eof_seen = true;
        }
        self.log.push((buf.len(), ReadOutcome::Ok(n)));
        Ok(n)
    }
}

pub fn readlog_json(log: &[(usize, ReadOutcome)]) -> Value {
    Value::Array(
        log.iter()
            .take(300)
            .map(|(b, o)| match o {
                ReadOutcome::Ok(n) => json!([b, n]),
                ReadOutcome::Interrupted => json!([b, "EINTR"]),
                ReadOutcome::Error => json!([b, "ERROR"]),
            })
            .collect(),
    )
}

// ---------------------------------------------------------------------------
// SimWriter

/// Accepts `budget` bytes, then fails every write with a tagged error.
pub struct SimWriter {
    pub out: Vec<u8>,
    pub budget: Option<usize>,
    pub failed: bool,
    pub writes_after_failure: usize,
    /// Seeded: every write accepts only 1-7 bytes and one call in four is answered Interrupted
    /// (a retry request) - no error, nothing lost.
    pub flaky: Option<Rng>,
    pub interrupted: usize,
}

impl SimWriter {
    pub fn new(budget: Option<usize>) -> SimWriter {
        SimWriter { out: vec![], budget, failed: false, writes_after_failure: 0, flaky: None, interrupted: 0 }
    }
    pub fn flaky(seed: u64) -> SimWriter {
        SimWriter { flaky: Some(Rng::new(seed)), ..SimWriter::new(None) }
    }
}

impl io::Write for SimWriter {
    fn write(&mut self, buf: &[u8]) -> io::Result<usize> {
        if self.failed {
            self.writes_after_failure += 1;
            return Err(io::Error::new(io::ErrorKind::Other, TAG_WRITE));
        }
        if let Some(rng) = self.flaky.as_mut() {
            if rng.chance(1, 4) {
                self.interrupted += 1;
                return Err(io::Error::new(io::ErrorKind::Interrupted, "simulated EINTR on write"));
            }
            let n = buf.len().min(1 + rng.below(7));
            self.out.extend_from_slice(&buf[..n]);
            return Ok(n);
        }
        match self.budget {
            None => {
                self.out.extend_from_slice(buf);
                Ok(buf.len())
            }
            Some(b) => {
                let room = b - self.out.len().min(b);
                if room == 0 && !buf.is_empty() {
                    self.failed = true;
                    return Err(io::Error::new(io::ErrorKind::Other, TAG_WRITE));
                }
                let n = room.min(buf.len());
                self.out.extend_from_slice(&buf[..n]);
                Ok(n)
            }
        }
    }
    fn flush(&mut self) -> io::Result<()> {
        Ok(())
    }
}

impl termcolor::WriteColor for SimWriter {
    fn supports_color(&self) -> bool {
        false
    }
    fn set_color(&mut self, _: &termcolor::ColorSpec) -> io::Result<()> {
        Ok(())
    }
    fn reset(&mut self) -> io::Result<()> {
        Ok(())
    }
}
