//! Shared pieces of the simulators: the one PRNG every choice is drawn from,
//! sub-seed derivation, a deterministic parallel map, evidence and replay
//! file writers, known-findings handling and the exit-code contract.
//!
//! Exit codes: 0 = property held on everything explored (KNOWN-FINDING lines
//! allowed), 1 = VIOLATION line printed, 2 = harness error (never prints
//! VIOLATION).

use serde_json::{json, Map, Value};
use std::collections::{BTreeMap, BTreeSet};
use std::path::{Path, PathBuf};
use std::sync::atomic::{AtomicUsize, Ordering};
use std::sync::Mutex;

pub const VERIF_DIR: &str = "/verif";

// ---------------------------------------------------------------------------
// PRNG: splitmix64 seeding xoshiro256**. Written out here so that streams
// never change with a dependency version.

#[derive(Clone, Debug)]
pub struct Rng {
    s: [u64; 4],
}

pub fn splitmix(x: &mut u64) -> u64 {
    *x = x.wrapping_add(0x9E3779B97F4A7C15);
    let mut z = *x;
    z = (z ^ (z >> 30)).wrapping_mul(0xBF58476D1CE4E5B9);
    z = (z ^ (z >> 27)).wrapping_mul(0x94D049BB133111EB);
    z ^ (z >> 31)
}

impl Rng {
    pub fn new(seed: u64) -> Rng {
        let mut x = seed;
        let s = [splitmix(&mut x), splitmix(&mut x), splitmix(&mut x), splitmix(&mut x)];
        Rng { s }
    }
    pub fn next(&mut self) -> u64 {
        let r = self.s[1].wrapping_mul(5).rotate_left(7).wrapping_mul(9);
        let t = self.s[1] << 17;
        self.s[2] ^= self.s[0];
        self.s[3] ^= self.s[1];
        self.s[1] ^= self.s[2];
        self.s[0] ^= self.s[3];
        self.s[2] ^= t;
        self.s[3] = self.s[3].rotate_left(45);
        r
    }
    /// Uniform in 0..n (n > 0).
    pub fn below(&mut self, n: usize) -> usize {
        debug_assert!(n > 0);
        (self.next() % n as u64) as usize
    }
    /// Uniform in lo..=hi.
    pub fn range(&mut self, lo: usize, hi: usize) -> usize {
        lo + self.below(hi - lo + 1)
    }
    pub fn chance(&mut self, num: usize, den: usize) -> bool {
        self.below(den) < num
    }
    pub fn pick<'a, T>(&mut self, xs: &'a [T]) -> &'a T {
        &xs[self.below(xs.len())]
    }
    pub fn shuffle<T>(&mut self, xs: &mut [T]) {
        for i in (1..xs.len()).rev() {
            let j = self.below(i + 1);
            xs.swap(i, j);
        }
    }
    /// Independent stream derived from this one and a label.
    pub fn fork(&mut self, label: &str) -> Rng {
        Rng::new(self.next() ^ fnv(label.as_bytes()))
    }
}

pub fn fnv(bytes: &[u8]) -> u64 {
    let mut h = 0xcbf29ce484222325u64;
    for &b in bytes {
        h = (h ^ b as u64).wrapping_mul(0x100000001b3);
    }
    h
}

pub fn fnv_step(h: u64, v: u64) -> u64 {
    let mut h = h;
    for i in 0..8 {
        h = (h ^ ((v >> (8 * i)) & 0xff)).wrapping_mul(0x100000001b3);
    }
    h
}

/// The sub-seed of one run: a pure function of (VERIF_SEED, stream label, run index).
pub fn subseed(seed: u64, label: &str, index: u64) -> u64 {
    let mut x = seed ^ fnv(label.as_bytes()).rotate_left(17) ^ index.wrapping_mul(0xD6E8FEB86659FD93);
    splitmix(&mut x)
}

// ---------------------------------------------------------------------------
// Command line / environment

#[derive(Clone, Debug)]
pub struct Opts {
    pub property: String,
    pub tier: String,
    pub seed: u64,
    pub replay: Option<PathBuf>,
    pub jobs: usize,
    /// Scale factor on the number of cases (for ad-hoc runs).
    pub scale: f64,
    pub extra: BTreeMap<String, String>,
}

impl Opts {
    pub fn parse() -> Opts {
        let mut o = Opts {
            property: String::new(),
            tier: std::env::var("VERIF_TIER").ok().filter(|s| !s.is_empty()).unwrap_or("quick".into()),
            seed: std::env::var("VERIF_SEED").ok().and_then(|s| s.trim().parse().ok()).unwrap_or(1),
            replay: None,
            jobs: std::env::var("VERIF_JOBS").ok().and_then(|s| s.parse().ok()).unwrap_or_else(|| {
                std::thread::available_parallelism().map(|n| n.get()).unwrap_or(4)
            }),
            scale: std::env::var("VERIF_SCALE").ok().and_then(|s| s.parse().ok()).unwrap_or(1.0),
            extra: BTreeMap::new(),
        };
        let args: Vec<String> = std::env::args().skip(1).collect();
        let mut i = 0;
        while i < args.len() {
            let a = &args[i];
            let mut val = || {
                i += 1;
                args.get(i).cloned().unwrap_or_else(|| harness_error(&format!("missing value for {a}")))
            };
            match a.as_str() {
                "--property" => o.property = val(),
                "--tier" => o.tier = val(),
                "--seed" => o.seed = val().parse().unwrap_or_else(|_| harness_error("bad --seed")),
                "--replay" => o.replay = Some(PathBuf::from(val())),
                "--jobs" => o.jobs = val().parse().unwrap_or_else(|_| harness_error("bad --jobs")),
                "--scale" => o.scale = val().parse().unwrap_or_else(|_| harness_error("bad --scale")),
                s if s.starts_with("--") => {
                    let k = s[2..].to_string();
                    let v = val();
                    o.extra.insert(k, v);
                }
                _ => harness_error(&format!("unexpected argument {a}")),
            }
            i += 1;
        }
        if o.tier != "quick" && o.tier != "thorough" {
            harness_error("tier must be quick or thorough");
        }
        o
    }
    pub fn thorough(&self) -> bool {
        self.tier == "thorough"
    }
    /// Number of cases for this tier, scaled.
    pub fn cases(&self, quick: u64, thorough: u64) -> u64 {
        let n = if self.thorough() { thorough } else { quick };
        ((n as f64 * self.scale) as u64).max(1)
    }
    pub fn get(&self, k: &str) -> Option<&str> {
        self.extra.get(k).map(|s| s.as_str())
    }
    /// Soft wall-clock budget of the main pass in seconds. A run that hits it
    /// stops generating further cases and reports what it covered; which
    /// cases are executed stays a pure function of the seed (always a prefix
    /// of the same sequence), only their number depends on the machine.
    pub fn budget_s(&self) -> u64 {
        std::env::var("VERIF_BUDGET_S").ok().and_then(|s| s.parse().ok()).unwrap_or(if self.thorough() { 1200 } else { 50 })
    }
}

#[derive(Clone, Copy)]
pub struct Deadline(std::time::Instant, u64);

impl Deadline {
    pub fn new(seconds: u64) -> Deadline {
        Deadline(std::time::Instant::now(), seconds)
    }
    pub fn passed(&self) -> bool {
        self.0.elapsed().as_secs() >= self.1
    }
}

pub fn harness_error(msg: &str) -> ! {
    eprintln!("HARNESS-ERROR: {msg}");
    std::process::exit(2)
}

// ---------------------------------------------------------------------------
// Deterministic parallel map: results are returned in index order whatever
// the worker threads do.

pub fn par_map<R: Send, F: Fn(u64) -> R + Sync>(jobs: usize, n: u64, f: F) -> Vec<R> {
    let next = AtomicUsize::new(0);
    let out: Mutex<Vec<Option<R>>> = Mutex::new((0..n).map(|_| None).collect());
    std::thread::scope(|s| {
        for _ in 0..jobs.max(1).min(n.max(1) as usize) {
            s.spawn(|| loop {
                let i = next.fetch_add(1, Ordering::SeqCst);
                if i as u64 >= n {
                    break;
                }
                let r = f(i as u64);
                out.lock().unwrap()[i] = Some(r);
            });
        }
    });
    out.into_inner().unwrap().into_iter().map(|r| r.unwrap()).collect()
}

/// Like par_map but folds chunks, to keep memory bounded for millions of runs.
pub fn par_fold<A: Send, F: Fn(u64, &mut A) + Sync, N: Fn() -> A + Sync>(
    jobs: usize,
    n: u64,
    chunk: u64,
    new: N,
    f: F,
) -> Vec<A> {
    let chunks = (n + chunk - 1) / chunk;
    par_map(jobs, chunks, |c| {
        let mut acc = new();
        let lo = c * chunk;
        let hi = ((c + 1) * chunk).min(n);
        for i in lo..hi {
            f(i, &mut acc);
        }
        acc
    })
}

// ---------------------------------------------------------------------------
// Counters (faults fired, probes hit)

#[derive(Clone, Debug, Default)]
pub struct Counters(pub BTreeMap<String, u64>);

impl Counters {
    pub fn inc(&mut self, k: &str) {
        self.add(k, 1);
    }
    pub fn add(&mut self, k: &str, n: u64) {
        if n > 0 {
            *self.0.entry(k.to_string()).or_insert(0) += n;
        } else {
            self.0.entry(k.to_string()).or_insert(0);
        }
    }
    pub fn merge(&mut self, o: &Counters) {
        for (k, v) in &o.0 {
            *self.0.entry(k.clone()).or_insert(0) += v;
        }
    }
    pub fn get(&self, k: &str) -> u64 {
        self.0.get(k).copied().unwrap_or(0)
    }
    pub fn to_json(&self) -> Value {
        Value::Object(self.0.iter().map(|(k, v)| (k.clone(), json!(v))).collect())
    }
    pub fn from_json(v: &Value) -> Counters {
        let mut c = Counters::default();
        if let Some(m) = v.as_object() {
            for (k, v) in m {
                c.0.insert(k.clone(), v.as_u64().unwrap_or(0));
            }
        }
        c
    }
}

// ---------------------------------------------------------------------------
// Violations, known findings, replay files

#[derive(Clone, Debug)]
pub struct Violation {
    pub property: String,
    /// Identifies the specific failing call site / configuration class; this
    /// is what known_findings.json is keyed by.
    pub class: String,
    pub summary: String,
    pub subseed: u64,
    /// Everything needed to re-run exactly this case.
    pub replay: Value,
}

#[derive(Clone, Debug)]
pub struct Finding {
    pub property: String,
    pub class: String,
    pub status: String,
    pub what: String,
}

pub fn load_known_findings() -> Vec<Finding> {
    let p = Path::new(VERIF_DIR).join("known_findings.json");
    let Ok(s) = std::fs::read_to_string(&p) else { return vec![] };
    let v: Value = serde_json::from_str(&s).unwrap_or_else(|e| harness_error(&format!("known_findings.json: {e}")));
    let mut out = vec![];
    for f in v["findings"].as_array().cloned().unwrap_or_default() {
        out.push(Finding {
            property: f["property"].as_str().unwrap_or("").into(),
            class: f["class"].as_str().unwrap_or("").into(),
            status: f["status"].as_str().unwrap_or("known").into(),
            what: f["what"].as_str().unwrap_or("").into(),
        });
    }
    out
}

pub fn write_json(path: &Path, v: &Value) {
    if let Some(d) = path.parent() {
        let _ = std::fs::create_dir_all(d);
    }
    let s = serde_json::to_string_pretty(v).unwrap();
    std::fs::write(path, s + "\n").unwrap_or_else(|e| harness_error(&format!("write {}: {e}", path.display())));
}

pub fn read_json(path: &Path) -> Value {
    let s = std::fs::read_to_string(path).unwrap_or_else(|e| harness_error(&format!("read {}: {e}", path.display())));
    serde_json::from_str(&s).unwrap_or_else(|e| harness_error(&format!("parse {}: {e}", path.display())))
}

pub fn hex(b: &[u8]) -> String {
    let mut s = String::with_capacity(b.len() * 2);
    for x in b {
        s.push_str(&format!("{x:02x}"));
    }
    s
}

pub fn unhex(s: &str) -> Vec<u8> {
    (0..s.len() / 2).map(|i| u8::from_str_radix(&s[2 * i..2 * i + 2], 16).unwrap_or(0)).collect()
}

/// Printable rendering of bytes for samples and summaries.
pub fn show(b: &[u8]) -> String {
    let mut s = String::new();
    for &c in b.iter().take(400) {
        match c {
            b'\n' => s.push_str("\\n"),
            b'\r' => s.push_str("\\r"),
            b'\t' => s.push_str("\\t"),
            b'\\' => s.push_str("\\\\"),
            0x20..=0x7e => s.push(c as char),
            _ => s.push_str(&format!("\\x{c:02x}")),
        }
    }
    if b.len() > 400 {
        s.push_str(&format!("...(+{} bytes)", b.len() - 400));
    }
    s
}

// ---------------------------------------------------------------------------
// Report: collects what a check run covered, prints verdict lines, writes the
// evidence file and determines the exit code.

pub struct Report {
    pub property: String,
    pub tier: String,
    pub seed: u64,
    pub level: String,
    pub rule: String,
    pub evaluations: u64,
    pub distinct: BTreeSet<u64>,
    pub samples: Vec<Value>,
    pub faults: Counters,
    pub probes: Counters,
    pub extra: Map<String, Value>,
    pub assumptions: Vec<String>,
    pub violations: Vec<Violation>,
    pub sim_ms: u64,
    /// Wall-clock seconds spent by another leg of the same check (two-leg checks).
    pub extra_wall_s: f64,
    start: std::time::Instant,
}

impl Report {
    pub fn new(opts: &Opts, level: &str, rule: &str) -> Report {
        Report {
            property: opts.property.clone(),
            tier: opts.tier.clone(),
            seed: opts.seed,
            level: level.into(),
            rule: rule.into(),
            evaluations: 0,
            distinct: BTreeSet::new(),
            samples: vec![],
            faults: Counters::default(),
            probes: Counters::default(),
            extra: Map::new(),
            assumptions: vec![],
            violations: vec![],
            sim_ms: 0,
            extra_wall_s: 0.0,
            start: std::time::Instant::now(),
        }
    }

    pub fn sample(&mut self, v: Value) {
        if self.samples.len() < 6 {
            self.samples.push(v);
        }
    }

    pub fn elapsed(&self) -> f64 {
        self.start.elapsed().as_secs_f64()
    }

    /// Writes replay files, prints VIOLATION / KNOWN-FINDING lines, writes the
    /// evidence file, and returns the process exit code.
    pub fn finish(mut self) -> i32 {
        let known = load_known_findings();
        let mut new_violations = 0;
        let mut known_hits: BTreeMap<String, (u64, String)> = BTreeMap::new();
        let mut seen_classes: BTreeSet<String> = BTreeSet::new();
        let mut violations = std::mem::take(&mut self.violations);
        // a broken tree can produce tens of thousands of violations: keep the first 25 of each
        // class (in the deterministic order they were merged in), count the rest
        {
            let mut per_class: BTreeMap<String, u64> = BTreeMap::new();
            let total = violations.len();
            violations.retain(|v| {
                let n = per_class.entry(v.class.clone()).or_insert(0);
                *n += 1;
                *n <= 25
            });
            if violations.len() < total {
                self.extra.insert("violations_beyond_25_per_class".into(), json!(total - violations.len()));
            }
        }
        let mut written_per_class: BTreeMap<String, u64> = BTreeMap::new();
        for v in &violations {
            if let Some(k) = known.iter().find(|k| k.status == "known" && k.property == v.property && k.class == v.class) {
                let e = known_hits.entry(v.class.clone()).or_insert((0, k.what.clone()));
                e.0 += 1;
                continue;
            }
            new_violations += 1;
            // At most three replay files per class, to keep output readable.
            let n_in_class = written_per_class.entry(v.class.clone()).or_insert(0);
            *n_in_class += 1;
            if *n_in_class > 3 {
                continue;
            }
            seen_classes.insert(v.class.clone());
            let path = Path::new(VERIF_DIR).join("replays").join(format!(
                "{}-{}-{:016x}.json",
                v.property,
                v.class.replace(|c: char| !c.is_ascii_alphanumeric() && c != '-', "_"),
                v.subseed
            ));
            let mut body = v.replay.clone();
            if let Some(m) = body.as_object_mut() {
                m.insert("property".into(), json!(v.property));
                m.insert("class".into(), json!(v.class));
                m.insert("summary".into(), json!(v.summary));
                m.insert("verif_seed".into(), json!(self.seed));
                m.insert("subseed".into(), json!(v.subseed));
            }
            write_json(&path, &body);
            println!("VIOLATION property={} replay={}", v.property, path.display());
            println!("  class={} subseed={} {}", v.class, v.subseed, v.summary);
        }
        for (class, (n, what)) in &known_hits {
            println!("KNOWN-FINDING: property={} class={} occurrences={} {}", self.property, class, n, what);
        }
        let wall = self.start.elapsed().as_secs_f64() + self.extra_wall_s;
        let mut cov = Map::new();
        cov.insert("evaluations".into(), json!(self.evaluations));
        cov.insert("distinct_nontrivial".into(), json!(self.distinct.len()));
        cov.insert("rule".into(), json!(self.rule));
        cov.insert("samples".into(), Value::Array(self.samples.clone()));
        cov.insert("faults_fired".into(), self.faults.to_json());
        cov.insert("probes".into(), self.probes.to_json());
        cov.insert("simulated_runs_per_hour".into(), json!((self.evaluations as f64 / wall.max(1e-3) * 3600.0) as u64));
        cov.insert("simulated_time_ms".into(), json!(self.sim_ms));
        cov.insert("known_finding_occurrences".into(), json!(known_hits.iter().map(|(k, v)| (k.clone(), json!(v.0))).collect::<Map<_, _>>()));
        for (k, v) in &self.extra {
            cov.insert(k.clone(), v.clone());
        }
        for (k, n) in &self.probes.0 {
            if *n == 0 {
                println!("note: probe '{k}' was not hit in this run (does not affect the verdict)");
            }
        }
        let ev = json!({
            "property_id": self.property,
            "tier": self.tier,
            "seed": self.seed,
            "level": self.level,
            "coverage": Value::Object(cov),
            "assumptions": self.assumptions,
            "wall_s": (wall * 1000.0).round() / 1000.0,
            "violations": new_violations,
        });
        write_json(&Path::new(VERIF_DIR).join("evidence").join(format!("{}.json", self.property)), &ev);
        println!(
            "{} tier={} seed={} evaluations={} distinct_nontrivial={} violations={} known_finding_classes={} wall={:.1}s",
            self.property,
            self.tier,
            self.seed,
            self.evaluations,
            self.distinct.len(),
            new_violations,
            known_hits.len(),
            wall
        );
        if new_violations > 0 {
            1
        } else {
            0
        }
    }
}

/// Scratch directory on tmpfs, removed on drop.
pub struct Scratch(pub PathBuf);

impl Scratch {
    pub fn new(tag: &str) -> Scratch {
        static N: AtomicUsize = AtomicUsize::new(0);
        let base = if Path::new("/dev/shm").is_dir() { "/dev/shm" } else { "/var/tmp" };
        // once per process: remove scratch directories of processes that no longer exist
        // (a process that ends through exit() or a signal does not run destructors)
        static SWEPT: std::sync::Once = std::sync::Once::new();
        SWEPT.call_once(|| {
            if let Ok(rd) = std::fs::read_dir(base) {
                for e in rd.flatten() {
                    let name = e.file_name().to_string_lossy().into_owned();
                    let mut parts = name.split('-');
                    if parts.next() != Some("verif") {
                        continue;
                    }
                    let pid = parts.nth(1).unwrap_or("");
                    if !pid.is_empty() && pid.bytes().all(|b| b.is_ascii_digit()) && !Path::new(&format!("/proc/{pid}")).exists() {
                        let _ = std::fs::remove_dir_all(e.path());
                    }
                }
            }
        });
        let p = PathBuf::from(format!("{base}/verif-{}-{}-{}", tag, std::process::id(), N.fetch_add(1, Ordering::SeqCst)));
        let _ = std::fs::remove_dir_all(&p);
        std::fs::create_dir_all(&p).unwrap_or_else(|e| harness_error(&format!("mkdir {}: {e}", p.display())));
        Scratch(p)
    }
    pub fn path(&self) -> &Path {
        &self.0
    }
}

impl Drop for Scratch {
    fn drop(&mut self) {
        let _ = std::fs::remove_dir_all(&self.0);
    }
}
