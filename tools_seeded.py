#!/usr/bin/env python3
"""Bookkeeping for seeded breaking changes.

  tools_seeded.py add <name> <worktree> <property> "<needs>"   copy patch/demo/notes from <worktree>/_seeded
  tools_seeded.py run <name> [check ids...]                     apply to /repo, run quick checks, record, revert
"""
import json, os, re, shutil, subprocess, sys, time

SEEDED = "/verif/seeded"

def sh(cmd, **kw):
    return subprocess.run(cmd, shell=isinstance(cmd, str), capture_output=True, text=True, **kw)

def add(name, wt, prop, needs):
    src = os.path.join(wt, "_seeded")
    dst = os.path.join(SEEDED, name)
    os.makedirs(dst, exist_ok=True)
    for root, dirs, files in os.walk(src):
        dirs[:] = [d for d in dirs if d not in ("target", ".git")]
        for f in files:
            p = os.path.join(root, f)
            if os.path.getsize(p) > 300_000 or f.endswith((".log",)) and os.path.getsize(p) > 50_000:
                continue
            rel = os.path.relpath(p, src)
            os.makedirs(os.path.dirname(os.path.join(dst, rel)), exist_ok=True)
            shutil.copy2(p, os.path.join(dst, rel))
    base = sh(["git", "-C", wt, "rev-parse", "HEAD"]).stdout.strip()
    meta = {"name": name, "breaks_property": prop, "needs_to_manifest": needs, "base_commit": base,
            "written_by": "sub-agent given only the property text and a scratch worktree",
            "confirmed": {}, "checks": {}}
    mp = os.path.join(dst, "meta.json")
    if os.path.exists(mp):
        old = json.load(open(mp)); old.update({k: v for k, v in meta.items() if k not in ("confirmed", "checks")}); meta = old
    json.dump(meta, open(mp, "w"), indent=1)
    print("added", dst, os.listdir(dst))

def run(name, ids):
    dst = os.path.join(SEEDED, name)
    meta = json.load(open(os.path.join(dst, "meta.json")))
    patch = os.path.join(dst, "patch.diff")
    assert sh("git -C /repo status --porcelain").stdout.strip() == "", "/repo is not clean"
    r = sh(["git", "-C", "/repo", "apply", patch])
    if r.returncode != 0:
        print("patch does not apply:", r.stderr); sys.exit(1)
    try:
        for cid in ids:
            t = time.time()
            r = sh(["/verif/check", cid, "quick"])
            classes = sorted(set(re.findall(r"class=(\S+)", r.stdout)))
            first = next((l.strip() for l in r.stdout.splitlines() if "class=" in l), "")
            meta["checks"][cid] = {"exit": r.returncode, "violation_classes": classes, "first": first[:300], "wall_s": round(time.time() - t, 1),
                                   "known_finding_lines": len(re.findall(r"^KNOWN-FINDING", r.stdout, re.M))}
            print(cid, "exit", r.returncode, classes[:4], (r.stderr or "")[-200:])
    finally:
        sh("git -C /repo checkout -- .")
        for f in sh("git -C /repo status --porcelain").stdout.splitlines():
            print("leftover in /repo:", f)
        sh("rm -f /verif/replays/*.json")
        # evidence files written while a seeded change was applied must not survive
        sh("git -C /verif checkout -- evidence")
    json.dump(meta, open(os.path.join(dst, "meta.json"), "w"), indent=1)

if __name__ == "__main__":
    if sys.argv[1] == "add":
        add(*sys.argv[2:6])
    elif sys.argv[1] == "run":
        run(sys.argv[2], sys.argv[3:] or ["C02", "C03", "C06", "C07", "C08", "C14", "C15", "C16", "C17", "C18"])
