#!/usr/bin/env python3
"""Regenerates MANIFEST.json from the table below (kept as code so that the
manifest stays consistent with what is actually built)."""
import json, os, subprocess

NA = {
 "C01": "pure function of (pattern, input bytes, flags): no schedule, fault, clock or history in it; the only history-dependent aspect (where buffer boundaries fall) is decided under C02. Deterministic simulation has nothing to control here.",
 "C04": "pure function of (directory tree, ignore-file contents); a differential run against git would be input generation, not simulation.",
 "C05": "pure function of (tree, rule sources, flags): precedence of filters has no interleaving, fault or history dimension.",
 "C09": "printer output is a pure function of the sink event stream and the input bytes; nothing to schedule or fail.",
 "C10": "a relation between pure functions of the same input (reporting modes); no nondeterminism or fault involved.",
 "C11": "a language-inclusion claim over all lines per pattern; needs a decision procedure (automata product), and has no schedule or fault in it.",
 "C12": "pure function of (globs, options, path).",
 "C13": "pure function of (pattern, whole input); the history-dependent part (filling the multi-line buffer from a fragmented or failing reader) is exercised by the multi-line configurations of C02, C16 and C17.",
 "C19": "pure function of (pattern, replacement template, line).",
}

PENDING = {}

CHECKS = {}

def check(pid, engine, category, text, note, technique, design_ref):
    CHECKS[pid] = {
        "property_id": pid,
        "quick_cmd": f"./check {pid} quick",
        "thorough_cmd": f"./check {pid} thorough",
        "evidence_file": f"/verif/evidence/{pid}.json",
        "replay_cmd_template": f"./check {pid} --replay {{path}}",
        "engine": engine,
        "level_claimed": {"category": category, "text": text, "design_ref": design_ref},
        "level_note": note,
        "technique": technique,
    }

exec(open(os.path.join(os.path.dirname(__file__), "manifest_checks.py")).read())

hooks = subprocess.run(["git", "-C", "/repo", "log", "--format=%H %s", "--grep=^verif hook"], capture_output=True, text=True).stdout.strip().splitlines()
manifest = {
  "version": 1,
  "setup_cmd": "cd /verif && ./setup.sh",
  "hooks": {
    "guard": "--cfg ripgrep_verif",
    "enable": "RUSTFLAGS='--cfg ripgrep_verif' (set in /verif/sim/.cargo/config.toml for the simulators; passed explicitly when ./check builds the rg binary from /repo/Cargo.toml)",
    "baseline_off_cmd": "cd /repo && cargo nextest run --workspace --no-fail-fast --test-threads 8 --offline || cargo test --workspace --no-fail-fast --offline",
    "source_commits": [h.split()[0] for h in hooks],
    "add_only": True,
  },
  "engines": [
    {"name": "walksim", "path": "/verif/sim/walksim", "serves_properties": ["C06", "C07"], "kind_free_text": "E2: in-process deterministic schedule simulator (baton scheduler vsched over real threads at hooked yield points) for the parallel directory walker, with seeded readdir order/faults, stat faults through the preloaded syscall shim, and a scripted visitor"},
    {"name": "iosim", "path": "/verif/sim/iosim", "serves_properties": ["C02", "C03", "C14", "C16", "C17"], "kind_free_text": "E1: library-level I/O simulator: SimReader (seeded read histories, EINTR, errors), SimSink (stop/error at event k), SimWriter (error after k bytes), randomised buffer capacity / heap limit"},
    {"name": "procsim", "path": "/verif/sim/procsim", "serves_properties": ["C02", "C03", "C08", "C14", "C15", "C16", "C17", "C18"], "kind_free_text": "E3: process-level simulator around the real rg binary: LD_PRELOAD syscall fault shim (faultshim.so: stdout byte budget/EPIPE, open/opendir/readdir/read/stat/fstat/mmap errors, EINTR on reads and on stdout writes, early EOF, read fragmentation on files and pipes, short writes to stdout), preloaded scheduler plugin (libvsched.so) serialising rg's worker threads at walker, search, print and shared-flag operations, scripted child process stub"},
  ],
  "checks": [CHECKS[k] for k in sorted(CHECKS)],
  "not_applicable": [{"property_id": k, "reason": v} for k, v in sorted({**NA, **{k: v for k, v in PENDING.items() if k not in CHECKS}}.items())],
  "notes": "Technique family: deterministic simulation with fault injection. One integer (VERIF_SEED, default 1) decides every generated workload, schedule, read size and fault. Exit codes: 0 held, 1 VIOLATION line printed, 2 harness error. See DESIGN.md.",
}
json.dump(manifest, open("/verif/MANIFEST.json", "w"), indent=1)
print("wrote MANIFEST.json:", sorted(CHECKS), "N/A:", [x["property_id"] for x in manifest["not_applicable"]])
