#!/usr/bin/env python3
import json,sys
for p in sys.argv[1:]:
    v=json.load(open(p))
    print("==",p)
    print(" class:",v.get('class'),"|",v.get('summary'))
    if 'cfg' in v: print(" cfg:",{k:x for k,x in v['cfg'].items() if x not in (None,False)})
    if 'tree' in v:
        print(" roots:",v['tree']['roots'])
        print(" nodes:",[ (n[0],)+tuple(n[1:]) for n in v['tree']['nodes']])
    if 'observed' in v and 'visited' in v['observed']: print(" visited:",v['observed']['visited'])
    if 'case' in v:
        c=v['case']
        print(" pattern:",c['pattern']," cfg:",{k:x for k,x in c['cfg'].items() if x not in (None,False,0,'lf','none') or k=='multi_line'})
        print(" data:",c['data_shown'][:600])
        print(" knobs:",v.get('knobs')," strategy:",v.get('strategy'))
        for k in ('expected_slice','expected_model','observed'):
            if k in v: print(" %-15s"%k, ' '.join(e[0] for e in v[k])[:400])
        print(" result:",v.get('observed_result'))
